//! Generating model: signals, expressions, statements, programs (DESIGN §3.1).
//! Programs are built as ASTs so that the reference semantics and the line
//! bookkeeping never depend on the subject's parser.

use digital_test_runner as dtr;

/// A value as seen at the interface: number, high-Z or unknown/don't-care.
#[derive(Clone, Copy, Debug, PartialEq, Eq, Hash, PartialOrd, Ord)]
pub enum V {
    Num(i64),
    Z,
    X,
}

impl V {
    pub fn show(&self) -> String {
        match self {
            V::Num(n) => format!("{n}"),
            V::Z => "Z".into(),
            V::X => "X".into(),
        }
    }
    pub fn json(&self) -> serde_json::Value {
        serde_json::Value::String(self.show())
    }
    pub fn parse(s: &str) -> Option<V> {
        match s {
            "Z" => Some(V::Z),
            "X" => Some(V::X),
            _ => s.parse().ok().map(V::Num),
        }
    }
}

impl From<dtr::InputValue> for V {
    fn from(v: dtr::InputValue) -> V {
        match v {
            dtr::InputValue::Value(n) => V::Num(n),
            dtr::InputValue::Z => V::Z,
        }
    }
}
impl From<dtr::OutputValue> for V {
    fn from(v: dtr::OutputValue) -> V {
        match v {
            dtr::OutputValue::Value(n) => V::Num(n),
            dtr::OutputValue::Z => V::Z,
            dtr::OutputValue::X => V::X,
        }
    }
}
impl From<dtr::ExpectedValue> for V {
    fn from(v: dtr::ExpectedValue) -> V {
        match v {
            dtr::ExpectedValue::Value(n) => V::Num(n),
            dtr::ExpectedValue::Z => V::Z,
            dtr::ExpectedValue::X => V::X,
        }
    }
}
impl V {
    pub fn to_output(self) -> dtr::OutputValue {
        match self {
            V::Num(n) => dtr::OutputValue::Value(n),
            V::Z => dtr::OutputValue::Z,
            V::X => dtr::OutputValue::X,
        }
    }
    pub fn to_input(self) -> dtr::InputValue {
        match self {
            V::Num(n) => dtr::InputValue::Value(n),
            _ => dtr::InputValue::Z,
        }
    }
}

#[derive(Clone, Copy, Debug, PartialEq, Eq, Hash, PartialOrd, Ord)]
pub enum Kind {
    /// input with default (Num or Z)
    In(V),
    Out,
    /// bidirectional with default (Num or Z)
    Bidir(V),
}

#[derive(Clone, Debug, PartialEq, Eq, Hash, PartialOrd, Ord)]
pub struct Sig {
    pub name: String,
    pub bits: usize,
    pub kind: Kind,
}

impl Sig {
    pub fn inp(name: &str, bits: usize, default: i64) -> Sig {
        Sig { name: name.into(), bits, kind: Kind::In(V::Num(default)) }
    }
    pub fn inp_z(name: &str, bits: usize) -> Sig {
        Sig { name: name.into(), bits, kind: Kind::In(V::Z) }
    }
    pub fn out(name: &str, bits: usize) -> Sig {
        Sig { name: name.into(), bits, kind: Kind::Out }
    }
    pub fn bidir(name: &str, bits: usize, default: V) -> Sig {
        Sig { name: name.into(), bits, kind: Kind::Bidir(default) }
    }
    pub fn is_in(&self) -> bool {
        matches!(self.kind, Kind::In(_) | Kind::Bidir(_))
    }
    pub fn is_out(&self) -> bool {
        matches!(self.kind, Kind::Out | Kind::Bidir(_))
    }
    pub fn default(&self) -> Option<V> {
        match self.kind {
            Kind::In(d) | Kind::Bidir(d) => Some(d),
            Kind::Out => None,
        }
    }
    pub fn to_real(&self) -> dtr::Signal {
        match self.kind {
            Kind::In(d) => dtr::Signal::input(self.name.clone(), self.bits, d.to_input()),
            Kind::Out => dtr::Signal::output(self.name.clone(), self.bits),
            Kind::Bidir(d) => dtr::Signal::bidirectional(self.name.clone(), self.bits, d.to_input()),
        }
    }
    pub fn show(&self) -> String {
        match self.kind {
            Kind::In(d) => format!("In {}({},{})", self.name, self.bits, d.show()),
            Kind::Out => format!("Out {}({})", self.name, self.bits),
            Kind::Bidir(d) => format!("Bidir {}({},{})", self.name, self.bits, d.show()),
        }
    }
    pub fn json(&self) -> serde_json::Value {
        serde_json::Value::String(self.show())
    }
    /// inverse of show()
    pub fn parse(s: &str) -> Option<Sig> {
        let (kind, rest) = s.split_once(' ')?;
        let (name, rest) = rest.rsplit_once('(')?;
        let rest = rest.strip_suffix(')')?;
        let mut parts = rest.split(',');
        let bits: usize = parts.next()?.parse().ok()?;
        let def = parts.next().and_then(V::parse);
        Some(Sig {
            name: name.into(),
            bits,
            kind: match kind {
                "In" => Kind::In(def?),
                "Out" => Kind::Out,
                "Bidir" => Kind::Bidir(def?),
                _ => return None,
            },
        })
    }
}

pub fn sigs_json(s: &[Sig]) -> serde_json::Value {
    serde_json::Value::Array(s.iter().map(|s| s.json()).collect())
}

#[derive(Clone, Copy, Debug, PartialEq, Eq, Hash)]
pub enum UnOp {
    Neg,
    Not,
    Inv,
}

pub const UNOPS: [UnOp; 3] = [UnOp::Neg, UnOp::Not, UnOp::Inv];

impl UnOp {
    pub fn text(self) -> &'static str {
        match self {
            UnOp::Neg => "-",
            UnOp::Not => "!",
            UnOp::Inv => "~",
        }
    }
}

#[derive(Clone, Copy, Debug, PartialEq, Eq, Hash)]
pub enum BinOp {
    Mul,
    Div,
    Rem,
    Add,
    Sub,
    Shl,
    Shr,
    And,
    Xor,
    Or,
    Lt,
    Gt,
    Le,
    Ge,
    Eq,
    Ne,
}

pub const BINOPS: [BinOp; 16] = [
    BinOp::Mul,
    BinOp::Div,
    BinOp::Rem,
    BinOp::Add,
    BinOp::Sub,
    BinOp::Shl,
    BinOp::Shr,
    BinOp::And,
    BinOp::Xor,
    BinOp::Or,
    BinOp::Lt,
    BinOp::Gt,
    BinOp::Le,
    BinOp::Ge,
    BinOp::Eq,
    BinOp::Ne,
];

impl BinOp {
    pub fn text(self) -> &'static str {
        match self {
            BinOp::Mul => "*",
            BinOp::Div => "/",
            BinOp::Rem => "%",
            BinOp::Add => "+",
            BinOp::Sub => "-",
            BinOp::Shl => "<<",
            BinOp::Shr => ">>",
            BinOp::And => "&",
            BinOp::Xor => "^",
            BinOp::Or => "|",
            BinOp::Lt => "<",
            BinOp::Gt => ">",
            BinOp::Le => "<=",
            BinOp::Ge => ">=",
            BinOp::Eq => "=",
            BinOp::Ne => "!=",
        }
    }
    /// Reference precedence level as the property C08 states it: 1 binds tightest.
    pub fn level(self) -> u8 {
        match self {
            BinOp::Mul | BinOp::Div | BinOp::Rem => 1,
            BinOp::Add | BinOp::Sub => 2,
            BinOp::Shl | BinOp::Shr => 3,
            BinOp::And => 4,
            BinOp::Xor => 5,
            BinOp::Or => 6,
            BinOp::Lt | BinOp::Gt | BinOp::Le | BinOp::Ge => 7,
            BinOp::Eq | BinOp::Ne => 8,
        }
    }
    pub fn from_text(s: &str) -> Option<BinOp> {
        BINOPS.iter().copied().find(|o| o.text() == s)
    }
}

#[derive(Clone, Copy, Debug, PartialEq, Eq, Hash)]
pub enum Radix {
    Dec,
    Hex,
    HexUp,
    Bin,
    BinUp,
    Oct,
}

pub const RADIXES: [Radix; 6] = [Radix::Dec, Radix::Hex, Radix::HexUp, Radix::Bin, Radix::BinUp, Radix::Oct];

/// Print a non-negative literal in a radix. `Dec` of 0 is "0" (which the DSL reads as octal zero).
pub fn lit_text(n: i64, r: Radix) -> String {
    assert!(n >= 0);
    match r {
        Radix::Dec => format!("{n}"),
        Radix::Hex => format!("0x{n:x}"),
        Radix::HexUp => format!("0X{n:X}"),
        Radix::Bin => format!("0b{n:b}"),
        Radix::BinUp => format!("0B{n:b}"),
        Radix::Oct => format!("0{n:o}"),
    }
}

#[derive(Clone, Debug, PartialEq, Eq, Hash)]
pub enum Expr {
    Lit(i64, Radix),
    Name(String),
    Un(UnOp, Box<Expr>),
    Bin(BinOp, Box<Expr>, Box<Expr>),
    Ite(Box<Expr>, Box<Expr>, Box<Expr>),
    Random(Box<Expr>),
    SignExt(Box<Expr>, Box<Expr>),
    /// explicit (redundant or not) parentheses
    Group(Box<Expr>),
    /// printed as the given token sequence, meaning the given expression
    Raw(Vec<String>, Box<Expr>),
}

pub fn lit(n: i64) -> Expr {
    Expr::Lit(n, Radix::Dec)
}
pub fn name(s: &str) -> Expr {
    Expr::Name(s.into())
}
pub fn bin(op: BinOp, a: Expr, b: Expr) -> Expr {
    Expr::Bin(op, Box::new(a), Box::new(b))
}
pub fn un(op: UnOp, a: Expr) -> Expr {
    Expr::Un(op, Box::new(a))
}
pub fn group(a: Expr) -> Expr {
    Expr::Group(Box::new(a))
}
pub fn ite(c: Expr, a: Expr, b: Expr) -> Expr {
    Expr::Ite(Box::new(c), Box::new(a), Box::new(b))
}
pub fn random(a: Expr) -> Expr {
    Expr::Random(Box::new(a))
}

#[derive(Clone, Debug, PartialEq, Eq, Hash)]
pub enum Entry {
    Lit(i64, Radix),
    X,
    Z,
    C,
    Paren(Expr),
    Bits(u8, Expr),
}

impl Entry {
    pub fn width(&self) -> usize {
        match self {
            Entry::Bits(k, _) => *k as usize,
            _ => 1,
        }
    }
}

#[derive(Clone, Debug, PartialEq, Eq, Hash)]
pub enum Stmt {
    Row(Vec<Entry>),
    Let(String, Expr),
    Loop(String, Expr, Vec<Stmt>),
    Repeat(Expr, Vec<Entry>),
    While(Expr, Vec<Stmt>),
    ResetRandom,
    Declare(String, Expr),
}

#[derive(Clone, Debug, PartialEq, Eq, Hash)]
pub struct Program {
    pub header: Vec<String>,
    pub body: Vec<Stmt>,
}

impl Program {
    /// declarations in source order (global to the test wherever they stand)
    pub fn declares(&self) -> Vec<(String, Expr)> {
        fn walk(stmts: &[Stmt], out: &mut Vec<(String, Expr)>) {
            for s in stmts {
                match s {
                    Stmt::Declare(n, e) => out.push((n.clone(), e.clone())),
                    Stmt::Loop(_, _, b) | Stmt::While(_, b) => walk(b, out),
                    _ => {}
                }
            }
        }
        let mut out = vec![];
        walk(&self.body, &mut out);
        out
    }
    pub fn count_nodes(&self) -> usize {
        fn walk(stmts: &[Stmt]) -> usize {
            stmts
                .iter()
                .map(|s| match s {
                    Stmt::Loop(_, _, b) | Stmt::While(_, b) => 1 + walk(b),
                    _ => 1,
                })
                .sum()
        }
        walk(&self.body)
    }
}

// ---------------------------------------------------------------------------
// Printing: AST -> token lines -> text

#[derive(Clone, Debug, PartialEq, Eq)]
pub struct Line {
    pub toks: Vec<String>,
    /// pre-order index of the Row/Repeat node printed on this line
    pub row: Option<usize>,
}

fn needs_paren_left(parent: BinOp, child: &Expr) -> bool {
    matches!(child, Expr::Bin(c, _, _) if c.level() > parent.level())
}
fn needs_paren_right(parent: BinOp, child: &Expr) -> bool {
    matches!(child, Expr::Bin(c, _, _) if c.level() >= parent.level())
}

/// Tokens of an expression with exactly the parentheses the reference precedence requires
/// (plus explicit `Group`s).
pub fn expr_tokens(e: &Expr, out: &mut Vec<String>) {
    let paren = |inner: &Expr, out: &mut Vec<String>| {
        out.push("(".into());
        expr_tokens(inner, out);
        out.push(")".into());
    };
    match e {
        Expr::Lit(n, r) => out.push(lit_text(*n, *r)),
        Expr::Name(n) => out.push(n.clone()),
        Expr::Un(op, a) => {
            out.push(op.text().into());
            if matches!(**a, Expr::Bin(..)) {
                paren(a, out)
            } else {
                expr_tokens(a, out)
            }
        }
        Expr::Bin(op, a, b) => {
            if needs_paren_left(*op, a) {
                paren(a, out)
            } else {
                expr_tokens(a, out)
            }
            out.push(op.text().into());
            if needs_paren_right(*op, b) {
                paren(b, out)
            } else {
                expr_tokens(b, out)
            }
        }
        Expr::Ite(c, a, b) => {
            out.push("ite".into());
            out.push("(".into());
            expr_tokens(c, out);
            out.push(",".into());
            expr_tokens(a, out);
            out.push(",".into());
            expr_tokens(b, out);
            out.push(")".into());
        }
        Expr::Random(a) => {
            out.push("random".into());
            out.push("(".into());
            expr_tokens(a, out);
            out.push(")".into());
        }
        Expr::SignExt(a, b) => {
            out.push("signExt".into());
            out.push("(".into());
            expr_tokens(a, out);
            out.push(",".into());
            expr_tokens(b, out);
            out.push(")".into());
        }
        Expr::Group(a) => paren(a, out),
        Expr::Raw(toks, _) => out.extend(toks.iter().cloned()),
    }
}

pub fn expr_text(e: &Expr) -> String {
    let mut t = vec![];
    expr_tokens(e, &mut t);
    t.join(" ")
}

/// Fully parenthesise every binary and unary sub-expression
pub fn fully_grouped(e: &Expr) -> Expr {
    match e {
        Expr::Lit(..) | Expr::Name(_) => e.clone(),
        Expr::Un(op, a) => group(un(*op, fully_grouped(a))),
        Expr::Bin(op, a, b) => group(bin(*op, fully_grouped(a), fully_grouped(b))),
        Expr::Ite(c, a, b) => ite(fully_grouped(c), fully_grouped(a), fully_grouped(b)),
        Expr::Random(a) => random(fully_grouped(a)),
        Expr::SignExt(a, b) => Expr::SignExt(Box::new(fully_grouped(a)), Box::new(fully_grouped(b))),
        Expr::Group(a) => group(fully_grouped(a)),
        Expr::Raw(_, m) => fully_grouped(m),
    }
}

fn entry_tokens(e: &Entry, out: &mut Vec<String>) {
    match e {
        Entry::Lit(n, r) => out.push(lit_text(*n, *r)),
        Entry::X => out.push("X".into()),
        Entry::Z => out.push("Z".into()),
        Entry::C => out.push("C".into()),
        Entry::Paren(x) => {
            out.push("(".into());
            expr_tokens(x, out);
            out.push(")".into());
        }
        Entry::Bits(k, x) => {
            out.push("bits".into());
            out.push("(".into());
            out.push(format!("{k}"));
            out.push(",".into());
            expr_tokens(x, out);
            out.push(")".into());
        }
    }
}

fn stmt_lines(stmts: &[Stmt], rows: &mut usize, out: &mut Vec<Line>) {
    for s in stmts {
        let mut toks = vec![];
        match s {
            Stmt::Row(es) => {
                for e in es {
                    entry_tokens(e, &mut toks);
                }
                out.push(Line { toks, row: Some(*rows) });
                *rows += 1;
            }
            Stmt::Let(n, e) => {
                toks.extend(["let".to_string(), n.clone(), "=".into()]);
                expr_tokens(e, &mut toks);
                toks.push(";".into());
                out.push(Line { toks, row: None });
            }
            Stmt::Declare(n, e) => {
                toks.extend(["declare".to_string(), n.clone(), "=".into()]);
                expr_tokens(e, &mut toks);
                toks.push(";".into());
                out.push(Line { toks, row: None });
            }
            Stmt::ResetRandom => {
                out.push(Line { toks: vec!["resetRandom".into(), ";".into()], row: None });
            }
            Stmt::Loop(v, e, body) => {
                toks.extend(["loop".to_string(), "(".into(), v.clone(), ",".into()]);
                expr_tokens(e, &mut toks);
                toks.push(")".into());
                out.push(Line { toks, row: None });
                stmt_lines(body, rows, out);
                out.push(Line { toks: vec!["end".into(), "loop".into()], row: None });
            }
            Stmt::While(e, body) => {
                toks.extend(["while".to_string(), "(".into()]);
                expr_tokens(e, &mut toks);
                toks.push(")".into());
                out.push(Line { toks, row: None });
                stmt_lines(body, rows, out);
                out.push(Line { toks: vec!["end".into(), "while".into()], row: None });
            }
            Stmt::Repeat(e, es) => {
                toks.extend(["repeat".to_string(), "(".into()]);
                expr_tokens(e, &mut toks);
                toks.push(")".into());
                for x in es {
                    entry_tokens(x, &mut toks);
                }
                out.push(Line { toks, row: Some(*rows) });
                *rows += 1;
            }
        }
    }
}

/// Header line first, then one line per statement / block delimiter.
pub fn lines(p: &Program) -> Vec<Line> {
    let mut out = vec![Line { toks: p.header.clone(), row: None }];
    let mut rows = 0;
    stmt_lines(&p.body, &mut rows, &mut out);
    out
}

/// Canonical text: tokens joined by one space, every line ended by "\n".
pub fn render(ls: &[Line]) -> String {
    let mut s = String::new();
    for l in ls {
        s.push_str(&l.toks.join(" "));
        s.push('\n');
    }
    s
}

pub fn text(p: &Program) -> String {
    render(&lines(p))
}

/// 1-based line of every row node in the canonical text
pub fn row_lines(ls: &[Line]) -> Vec<usize> {
    let mut v = vec![];
    for (i, l) in ls.iter().enumerate() {
        if let Some(r) = l.row {
            assert_eq!(r, v.len());
            v.push(i + 1);
        }
    }
    v
}
