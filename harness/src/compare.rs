//! Comparison of the subject's observations with the reference run, under a projection
//! that selects what the property at hand talks about (DESIGN §5.5).

use crate::refsem::*;
use crate::subject::*;

#[derive(Clone, Copy, Debug)]
pub struct Proj {
    pub input_values: bool,
    pub expected: bool,
    pub output: bool,
    pub checked_kind: bool,
    pub lines: bool,
    pub vars: bool,
    /// compare verdict helpers check()/is_checked()/failing against the X/Z rules
    pub verdicts: bool,
}

impl Proj {
    pub const ROWS: Proj = Proj { input_values: true, expected: true, output: false, checked_kind: true, lines: false, vars: false, verdicts: false };
    pub const ALL: Proj = Proj { input_values: true, expected: true, output: true, checked_kind: true, lines: false, vars: false, verdicts: true };
}

pub fn init_matches(r: &RefInit, o: &ObsInit) -> bool {
    match (r, o) {
        (RefInit::Ok, ObsInit::Ok) => true,
        (RefInit::Driver(a), ObsInit::DriverErr(b)) => a == b,
        // any error from the constructor that is not the driver's own (the wording is not specified)
        (RefInit::MissingOutputs(_), ObsInit::Runtime(_)) => true,
        _ => false,
    }
}

/// Expected verdict of one output entry by the X/Z rules of C03
pub fn verdict(expected: crate::model::V, output: crate::model::V) -> bool {
    use crate::model::V;
    match (expected, output) {
        (V::X, _) => true,
        (V::Z, V::Z) => true,
        (V::Num(a), V::Num(b)) => a == b,
        _ => false,
    }
}

/// Compare one reference item with one observed item. `row_lines`: 1-based line per row node.
pub fn item_mismatch(r: &RefItem, o: &ObsItem, p: Proj, row_lines: Option<&[usize]>, vars: Option<&Option<Vec<(String, i64)>>>) -> Option<String> {
    match (r, o) {
        (RefItem::Row(rr), ObsItem::Row(or)) => {
            if rr.inputs.len() != or.inputs.len() {
                return Some(format!("inputs: expected {} entries, got {}", rr.inputs.len(), or.inputs.len()));
            }
            for (k, ((rn, rv), (on, ov, _))) in rr.inputs.iter().zip(&or.inputs).enumerate() {
                if rn != on {
                    return Some(format!("inputs[{k}]: expected signal {rn}, got {on}"));
                }
                if p.input_values && rv != ov {
                    return Some(format!("inputs[{k}] ({rn}): expected value {}, got {}", rv.show(), ov.show()));
                }
            }
            if p.checked_kind && rr.outputs.len() != or.outputs.len() {
                return Some(format!(
                    "outputs: expected {} entries ({}), got {}",
                    rr.outputs.len(),
                    if rr.checked { "checked row" } else { "unchecked mid-clock row" },
                    or.outputs.len()
                ));
            }
            if rr.outputs.len() == or.outputs.len() {
                for (k, (ro, oo)) in rr.outputs.iter().zip(&or.outputs).enumerate() {
                    if ro.name != oo.name {
                        return Some(format!("outputs[{k}]: expected signal {}, got {}", ro.name, oo.name));
                    }
                    if p.expected && ro.expected != oo.expected {
                        return Some(format!("outputs[{k}] ({}): expected value {} but row says {}", ro.name, ro.expected.show(), oo.expected.show()));
                    }
                    if p.output && ro.output != oo.output {
                        return Some(format!("outputs[{k}] ({}): device value {} but row reports {}", ro.name, ro.output.show(), oo.output.show()));
                    }
                    if p.verdicts {
                        let want = verdict(oo.expected, oo.output);
                        if oo.check != want {
                            return Some(format!("outputs[{k}] ({}): check() = {} for expected {} / output {}", ro.name, oo.check, oo.expected.show(), oo.output.show()));
                        }
                        if oo.is_checked != (oo.expected != crate::model::V::X) {
                            return Some(format!("outputs[{k}] ({}): is_checked() = {} for expected {}", ro.name, oo.is_checked, oo.expected.show()));
                        }
                        if oo.failing != !want {
                            return Some(format!("outputs[{k}] ({}): membership in failing_outputs() = {} but check should be {}", ro.name, oo.failing, want));
                        }
                    }
                }
            }
            if p.lines {
                if let Some(rl) = row_lines {
                    if rl[rr.node] != or.line {
                        return Some(format!("line: row comes from source line {}, reported {}", rl[rr.node], or.line));
                    }
                }
            }
            if p.vars {
                if let Some(v) = vars {
                    match v {
                        Some(v) if *v == rr.vars => {}
                        other => return Some(format!("vars(): expected {:?}, got {:?}", rr.vars, other)),
                    }
                }
            }
            None
        }
        (RefItem::ExprErr(_), ObsItem::Runtime(_)) | (RefItem::VirtErr(_), ObsItem::Runtime(_)) => None,
        (RefItem::DriverErr(a), ObsItem::DriverErr(b)) if a == b => None,
        _ => Some(format!("item kind: expected {}, got {}", ref_brief(r), o.brief())),
    }
}

pub fn ref_brief(r: &RefItem) -> String {
    match r {
        RefItem::Row(r) => format!(
            "row(node {} in=[{}] {} out=[{}])",
            r.node,
            r.inputs.iter().map(|(n, v)| format!("{n}={}", v.show())).collect::<Vec<_>>().join(" "),
            if r.checked { "checked" } else { "unchecked" },
            r.outputs.iter().map(|o| format!("{}:{}~{}", o.name, o.output.show(), o.expected.show())).collect::<Vec<_>>().join(" ")
        ),
        RefItem::ExprErr(e) => format!("runtime-error({e:?}) without a driver call"),
        RefItem::VirtErr(e) => format!("runtime-error({e:?}) after the driver call"),
        RefItem::DriverErr(id) => format!("driver-error#{id}"),
    }
}

pub fn ref_items_brief(r: &RefRun) -> Vec<String> {
    let mut v: Vec<String> = vec![format!("init: {:?}", r.init)];
    v.extend(r.items.iter().map(ref_brief));
    v.push(format!("end: {:?}", r.end));
    v
}

pub fn obs_items_brief(o: &Obs) -> Vec<String> {
    let mut v: Vec<String> = vec![format!("init: {}", o.init.brief())];
    v.extend(o.items.iter().map(|i| i.brief()));
    v
}

/// Full-run comparison for a reference run that went to its end (Done or Stopped).
/// Returns (index of the first differing item, description).
pub fn run_mismatch(r: &RefRun, o: &Obs, p: Proj, row_lines: Option<&[usize]>) -> Option<(usize, String)> {
    if !init_matches(&r.init, &o.init) {
        return Some((0, format!("construction: expected {:?}, got {}", r.init, o.init.brief())));
    }
    if r.init != RefInit::Ok {
        return None;
    }
    for (k, ri) in r.items.iter().enumerate() {
        let Some(oi) = o.items.get(k) else {
            return Some((k, format!("item {k}: expected {}, but the iteration had stopped / was not advanced", ref_brief(ri))));
        };
        let vars = if p.vars { o.vars.get(k) } else { None };
        if let Some(m) = item_mismatch(ri, oi, p, row_lines, vars) {
            return Some((k, format!("item {k}: {m}")));
        }
    }
    if r.end == RefEnd::Done {
        match o.items.get(r.items.len()) {
            Some(ObsItem::End) => {}
            other => {
                return Some((r.items.len(), format!("item {}: expected end of iteration, got {}", r.items.len(), other.map(|i| i.brief()).unwrap_or("nothing".into()))));
            }
        }
        // every further call after the end must also be None
        for (k, oi) in o.items.iter().enumerate().skip(r.items.len() + 1) {
            if *oi != ObsItem::End {
                return Some((k, format!("item {k}: next() after the end returned {}", oi.brief())));
            }
        }
    }
    None
}
