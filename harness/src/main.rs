//! dtr-verif: model-checking harness for olofos/digital_test_runner (see /verif/DESIGN.md).
mod compare;
mod driver;
mod digxml;
mod e1;
mod engine;
mod layout;
mod model;
mod props;
mod refgrammar;
mod refsem;
mod replay;
mod space;
mod subject;

use engine::Tier;

fn usage() -> ! {
    eprintln!("usage: dtr-verif <C01..C20> quick|thorough | replay <file> | selftest");
    std::process::exit(2);
}

fn main() {
    subject::install_panic_hook();
    let args: Vec<String> = std::env::args().skip(1).collect();
    if args.is_empty() {
        usage();
    }
    let seed: u64 = std::env::var("VERIF_SEED").ok().and_then(|s| s.parse().ok()).unwrap_or(0);
    if args[0] == "xcase" {
        // internal: one row with many X inputs, run in a child process under a memory limit
        let nx: usize = args.get(1).and_then(|s| s.parse().ok()).unwrap_or(64);
        let with_c = args.get(2).map(|s| s == "1").unwrap_or(false);
        std::process::exit(props::c05::xcase(nx, with_c));
    }
    if args[0] == "replay" {
        let Some(path) = args.get(1) else { usage() };
        std::process::exit(replay::replay(path));
    }
    let tier = match args.get(1).map(|s| s.as_str()).or(std::env::var("VERIF_TIER").ok().as_deref()) {
        Some("quick") | None => Tier::Quick,
        Some("thorough") => Tier::Thorough,
        _ => usage(),
    };
    let code = std::panic::catch_unwind(|| props::dispatch(&args[0], tier, seed));
    match code {
        Ok(Some(c)) => std::process::exit(c),
        Ok(None) => usage(),
        Err(_) => {
            eprintln!("MACHINERY-FAILURE: the harness itself panicked");
            std::process::exit(2);
        }
    }
}
