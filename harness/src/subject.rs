//! The only place that touches the library (DESIGN §3.4): runs the public API under
//! catch_unwind + step watchdog and projects what it returns into plain data.

use crate::driver::*;
use crate::model::*;
use digital_test_runner as dtr;
use dtr::verif_hooks as hooks;
use dtr::TestDriver;
use std::cell::RefCell;
use std::panic::{catch_unwind, AssertUnwindSafe};
use std::str::FromStr;

thread_local! {
    static LAST_PANIC: RefCell<Option<String>> = const { RefCell::new(None) };
}

/// Install (once) a panic hook that records message and location instead of printing.
pub fn install_panic_hook() {
    std::panic::set_hook(Box::new(|info| {
        let loc = info.location().map(|l| format!("{}:{}", l.file(), l.line())).unwrap_or_default();
        let msg = if let Some(s) = info.payload().downcast_ref::<&str>() {
            s.to_string()
        } else if let Some(s) = info.payload().downcast_ref::<String>() {
            s.clone()
        } else if info.payload().downcast_ref::<hooks::WatchdogExpired>().is_some() {
            "WATCHDOG".to_string()
        } else {
            "<non-string panic>".to_string()
        };
        // Panics of the harness itself must stay visible
        if !loc.contains("/repo/") && msg != "WATCHDOG" && !loc.contains(".cargo/registry") && !loc.contains("/rustc/") {
            eprintln!("HARNESS PANIC at {loc}: {msg}");
        }
        LAST_PANIC.with(|p| *p.borrow_mut() = Some(format!("{loc}: {msg}")));
    }));
}

#[derive(Clone, Debug, PartialEq, Eq, Hash)]
pub enum Caught {
    Panic(String),
    Watchdog,
}

pub const DEFAULT_BUDGET: u64 = 200_000;

/// Run `f` (library code) with a step budget, catching panics.
pub fn guard<R>(budget: u64, f: impl FnOnce() -> R) -> Result<R, Caught> {
    hooks::set_step_budget(Some(budget));
    let r = catch_unwind(AssertUnwindSafe(f));
    hooks::set_step_budget(None);
    match r {
        Ok(v) => Ok(v),
        Err(payload) => {
            if payload.downcast_ref::<hooks::WatchdogExpired>().is_some() {
                Err(Caught::Watchdog)
            } else {
                let msg = LAST_PANIC.with(|p| p.borrow_mut().take()).unwrap_or_else(|| "<unknown panic>".into());
                Err(Caught::Panic(msg))
            }
        }
    }
}

#[derive(Clone, Debug, PartialEq, Eq, Hash)]
pub struct ObsOut {
    pub name: String,
    pub bits: usize,
    pub output: V,
    pub expected: V,
    pub check: bool,
    pub is_checked: bool,
    pub failing: bool,
    pub is_virtual: bool,
    /// OutputValue::check(expected) and ExpectedValue::check(output): the same verdict through the value API
    pub value_check: (bool, bool),
}

#[derive(Clone, Debug, PartialEq, Eq, Hash)]
pub struct ObsRow {
    pub line: usize,
    pub inputs: Vec<(String, V, bool)>,
    pub outputs: Vec<ObsOut>,
}

#[derive(Clone, Debug, PartialEq, Eq, Hash)]
pub enum ObsItem {
    Row(ObsRow),
    DriverErr(u32),
    Runtime(String),
    Panic(String),
    Watchdog,
    End,
}

impl ObsItem {
    pub fn is_row(&self) -> bool {
        matches!(self, ObsItem::Row(_))
    }
    pub fn brief(&self) -> String {
        match self {
            ObsItem::Row(r) => format!(
                "row(line {} in=[{}] out=[{}])",
                r.line,
                r.inputs.iter().map(|(n, v, c)| format!("{n}={}{}", v.show(), if *c { "*" } else { "" })).collect::<Vec<_>>().join(" "),
                r.outputs.iter().map(|o| format!("{}:{}~{}", o.name, o.output.show(), o.expected.show())).collect::<Vec<_>>().join(" ")
            ),
            ObsItem::DriverErr(id) => format!("driver-error#{id}"),
            ObsItem::Runtime(s) => format!("runtime-error({s})"),
            ObsItem::Panic(s) => format!("PANIC({s})"),
            ObsItem::Watchdog => "DIVERGES(step watchdog)".into(),
            ObsItem::End => "end".into(),
        }
    }
}

#[derive(Clone, Debug, PartialEq, Eq, Hash)]
pub enum ObsInit {
    Ok,
    ParseErr(String),
    BindErr(String),
    DriverErr(u32),
    Runtime(String),
    Panic(String),
    Watchdog,
}

impl ObsInit {
    pub fn brief(&self) -> String {
        format!("{self:?}")
    }
}

#[derive(Clone, Debug, Default)]
pub struct RunOpts {
    /// maximum number of next() calls (not counting the extra calls after the end)
    pub max_next: usize,
    /// extra next() calls after None was returned
    pub after_end: usize,
    /// continue after an error item (callers normally stop)
    pub continue_after_error: bool,
    pub seed: u64,
    pub budget: u64,
    pub collect_vars: bool,
    pub collect_key: bool,
    /// extra signals the driver can name in its answers, besides the test's own
    pub extra_known: Vec<Sig>,
    /// the driver keeps repeating the last step of its script
    pub repeat_last: bool,
    /// call the read-only methods of the iterator (size_hint, vars) before every next()
    pub poke: bool,
    /// > 0: the caller advances with `nth(stride)` instead of `next()` (as `skip`/`step_by` do)
    pub stride: usize,
    /// leave the generator's seed to the subject (the production path: seeded from the OS)
    pub no_seed_override: bool,
    /// the driver may also name the test's declared (virtual) signals in its answers: its list of
    /// known signals is extended by clones of them taken from the public `signals` field
    pub know_declared: bool,
}

impl RunOpts {
    pub fn new(max_next: usize) -> Self {
        RunOpts { max_next, after_end: 0, continue_after_error: false, seed: 1, budget: DEFAULT_BUDGET, collect_vars: false, collect_key: false, extra_known: vec![], repeat_last: false, poke: false, stride: 0, no_seed_override: false, know_declared: false }
    }
}

#[derive(Clone, Debug)]
pub struct Obs {
    pub init: ObsInit,
    pub items: Vec<ObsItem>,
    /// number of driver calls logged after the constructor and after each next()
    pub calls_after: Vec<usize>,
    pub log: Vec<Call>,
    pub exhausted: bool,
    pub vars: Vec<Option<Vec<(String, i64)>>>,
    /// H6 key after the last next()
    pub key: Option<String>,
    pub draws: Vec<hooks::DrawEvent>,
    /// names of TestCase.signals in order (incl. virtual)
    pub signal_names: Vec<String>,
    /// a call of vars() panicked
    pub vars_panic: Option<String>,
}

/// The derived Debug of the iterator prints hash maps in arbitrary order: drop those sections
/// (`outputs: {...}`); the canonical part of the key renders them sorted.
pub fn canonical_key(k: String) -> String {
    let mut out = String::with_capacity(k.len());
    let mut rest = k.as_str();
    while let Some(a) = rest.find("outputs: {") {
        let after = &rest[a + 10..];
        let Some(b) = after.find('}') else { break };
        out.push_str(&rest[..a]);
        out.push_str("outputs: _");
        rest = &after[b + 1..];
    }
    out.push_str(rest);
    out
}

fn project_row(row: &dtr::DataRow<'_>) -> ObsRow {
    let failing: Vec<*const dtr::OutputResultEntry<'_>> = row.failing_outputs().map(|e| e as *const _).collect();
    ObsRow {
        line: row.line,
        inputs: row.inputs.iter().map(|i| (i.signal.name.clone(), V::from(i.value), i.changed)).collect(),
        outputs: row
            .outputs
            .iter()
            .map(|o| ObsOut {
                name: o.signal.name.clone(),
                bits: o.signal.bits,
                output: V::from(o.output),
                expected: V::from(o.expected),
                check: o.check(),
                is_checked: o.is_checked(),
                failing: failing.contains(&(o as *const _)),
                is_virtual: matches!(o.signal.typ, dtr::SignalType::Virtual { .. }),
                value_check: (o.output.check(o.expected), o.expected.check(o.output)),
            })
            .collect(),
    }
}

pub fn parse(text: &str, budget: u64) -> Result<Result<dtr::ParsedTestCase, dtr::errors::ParseError>, Caught> {
    guard(budget, || dtr::ParsedTestCase::from_str(text))
}

pub fn load(text: &str, sigs: &[Sig], budget: u64) -> Result<dtr::TestCase, ObsInit> {
    let parsed = match parse(text, budget) {
        Ok(Ok(p)) => p,
        Ok(Err(e)) => return Err(ObsInit::ParseErr(format!("{:?}", e))),
        Err(Caught::Panic(s)) => return Err(ObsInit::Panic(s)),
        Err(Caught::Watchdog) => return Err(ObsInit::Watchdog),
    };
    let real: Vec<dtr::Signal> = sigs.iter().map(|s| s.to_real()).collect();
    match guard(budget, move || parsed.with_signals(real)) {
        Ok(Ok(tc)) => Ok(tc),
        Ok(Err(e)) => Err(ObsInit::BindErr(format!("{}", miette_chain(&e)))),
        Err(Caught::Panic(s)) => Err(ObsInit::Panic(s)),
        Err(Caught::Watchdog) => Err(ObsInit::Watchdog),
    }
}

/// The error's message chain; formatting is the subject's code and may itself panic
pub fn miette_chain(e: &dyn std::error::Error) -> String {
    match std::panic::catch_unwind(std::panic::AssertUnwindSafe(|| {
        let mut s = format!("{e}");
        let mut cur = e.source();
        while let Some(c) = cur {
            s.push_str(": ");
            s.push_str(&format!("{c}"));
            cur = c.source();
        }
        s
    })) {
        Ok(s) => s,
        Err(_) => "PANIC while the error message was being formatted".to_string(),
    }
}

fn item_of(r: Option<Result<dtr::DataRow<'_>, dtr::errors::IterationError<Fault>>>) -> ObsItem {
    match r {
        None => ObsItem::End,
        Some(Ok(row)) => ObsItem::Row(project_row(&row)),
        Some(Err(dtr::errors::IterationError::Driver(Fault(id)))) => ObsItem::DriverErr(id),
        Some(Err(dtr::errors::IterationError::Runtime(e))) => ObsItem::Runtime(miette_chain(&e)),
    }
}

fn run_tc<'s, const OV: bool>(tc: &dtr::TestCase, sigs: &[Sig], script: &'s [Step], opts: &RunOpts) -> Obs
where
    ScriptDriver<'s, OV>: TestDriver<Error = Fault>,
{
    let mut known: Vec<Sig> = sigs.to_vec();
    known.extend(opts.extra_known.iter().cloned());
    let mut driver = ScriptDriver::<OV>::new(&known, script);
    driver.repeat_last = opts.repeat_last;
    if opts.know_declared {
        driver.known.extend(tc.signals.iter().filter(|s| !s.is_input() && !s.is_output()).cloned());
    }
    hooks::set_seed_override(if opts.no_seed_override { None } else { Some(opts.seed) });
    let _ = hooks::take_draw_log();
    let mut obs = Obs {
        init: ObsInit::Ok,
        items: vec![],
        calls_after: vec![],
        log: vec![],
        exhausted: false,
        vars: vec![],
        key: None,
        draws: vec![],
        signal_names: tc.signals.iter().map(|s| s.name.clone()).collect(),
        vars_panic: None,
    };
    {
        let counter = driver.counter.clone();
        let calls = || counter.get();
        let it = guard(opts.budget, || tc.try_iter(&mut driver));
        let mut it = match it {
            Ok(Ok(it)) => Some(it),
            Ok(Err(dtr::errors::IterationError::Driver(Fault(id)))) => {
                obs.init = ObsInit::DriverErr(id);
                None
            }
            Ok(Err(dtr::errors::IterationError::Runtime(e))) => {
                obs.init = ObsInit::Runtime(miette_chain(&e));
                None
            }
            Err(Caught::Panic(s)) => {
                obs.init = ObsInit::Panic(s);
                None
            }
            Err(Caught::Watchdog) => {
                obs.init = ObsInit::Watchdog;
                None
            }
        };
        obs.calls_after.push(calls());
        if let Some(it) = it.as_mut() {
            if opts.collect_key {
                obs.key = Some(canonical_key(it.verif_state_key()));
            }
            let mut extra = opts.after_end;
            let mut n = 0;
            while n < opts.max_next {
                n += 1;
                if opts.poke {
                    let _ = guard(opts.budget, || {
                        let _ = it.size_hint();
                        let _ = it.vars();
                    });
                }
                let stride = opts.stride;
                let item = match guard(opts.budget, || item_of(if stride > 0 { it.nth(stride) } else { it.next() })) {
                    Ok(i) => i,
                    Err(Caught::Panic(s)) => ObsItem::Panic(s),
                    Err(Caught::Watchdog) => ObsItem::Watchdog,
                };
                obs.calls_after.push(calls());
                let fatal = matches!(item, ObsItem::Panic(_) | ObsItem::Watchdog);
                let is_err = matches!(item, ObsItem::DriverErr(_) | ObsItem::Runtime(_));
                let is_end = item == ObsItem::End;
                obs.items.push(item);
                if fatal {
                    break;
                }
                if opts.collect_vars {
                    let v = guard(opts.budget, || it.vars());
                    if let Err(c) = &v {
                        obs.vars_panic = Some(format!("{c:?}"));
                    }
                    obs.vars.push(v.ok().map(|m| {
                        let mut v: Vec<(String, i64)> = m.into_iter().collect();
                        v.sort();
                        v
                    }));
                }
                if opts.collect_key {
                    obs.key = guard(opts.budget, || it.verif_state_key()).ok().map(canonical_key);
                }
                if is_err && !opts.continue_after_error {
                    break;
                }
                if is_end {
                    if extra == 0 {
                        break;
                    }
                    extra -= 1;
                    n -= 1;
                }
            }
        }
    }
    obs.draws = hooks::take_draw_log();
    hooks::set_seed_override(None);
    obs.exhausted = driver.exhausted;
    obs.log = driver.log;
    obs
}

/// Parse + bind + iterate with a scripted driver.
pub fn run_dynamic(text: &str, sigs: &[Sig], ov: bool, script: &[Step], opts: &RunOpts) -> Obs {
    match load(text, sigs, opts.budget) {
        Ok(tc) => run_loaded(&tc, sigs, ov, script, opts),
        Err(init) => Obs {
            init,
            items: vec![],
            calls_after: vec![],
            log: vec![],
            exhausted: false,
            vars: vec![],
            key: None,
            draws: vec![],
            signal_names: vec![],
            vars_panic: None,
        },
    }
}

pub fn run_loaded(tc: &dtr::TestCase, sigs: &[Sig], ov: bool, script: &[Step], opts: &RunOpts) -> Obs {
    if ov {
        run_tc::<true>(tc, sigs, script, opts)
    } else {
        run_tc::<false>(tc, sigs, script, opts)
    }
}

/// Lines reported by `tc` when another iterator (over `other`) is advanced between all of its
/// next() calls, on the same thread.
pub fn lines_with_companion(tc: &dtr::TestCase, sigs: &[Sig], script: &[Step], other: &dtr::TestCase, other_sigs: &[Sig], other_script: &[Step], max: usize) -> Result<Vec<usize>, Caught> {
    let mut da = ScriptDriver::<true>::new(sigs, script);
    da.repeat_last = true;
    let mut db = ScriptDriver::<true>::new(other_sigs, other_script);
    db.repeat_last = true;
    hooks::set_seed_override(Some(1));
    let r = guard(DEFAULT_BUDGET, || {
        let mut lines = vec![];
        let (Ok(mut a), Ok(mut b)) = (tc.try_iter(&mut da), other.try_iter(&mut db)) else { return lines };
        for _ in 0..max {
            match a.next() {
                Some(Ok(r)) => lines.push(r.line),
                Some(Err(_)) => lines.push(0),
                None => break,
            }
            let _ = b.next();
        }
        lines
    });
    hooks::set_seed_override(None);
    let _ = hooks::take_draw_log();
    r
}

#[derive(Clone, Debug, PartialEq, Eq, Hash)]
pub struct StaticRow {
    pub line: usize,
    pub inputs: Vec<(String, V, bool)>,
    pub expected: Vec<(String, V)>,
}

#[derive(Clone, Debug, PartialEq, Eq, Hash)]
pub enum StaticObs {
    NotStatic(String),
    Panic(String),
    Watchdog,
    Rows(Vec<Result<StaticRow, String>>, bool),
}

/// Run the static API to completion (at most `max` rows; the flag says whether the end was reached).
pub fn run_static(tc: &dtr::TestCase, max: usize, seed: u64, budget: u64) -> StaticObs {
    run_static_opt(tc, max, seed, budget, false)
}

/// `carry_on`: keep calling next() after an error item
pub fn run_static_opt(tc: &dtr::TestCase, max: usize, seed: u64, budget: u64, carry_on: bool) -> StaticObs {
    hooks::set_seed_override(Some(seed));
    let r = guard(budget, || {
        let it = match tc.try_iter_static() {
            Ok(it) => it,
            Err(e) => return StaticObs::NotStatic(format!("{e}")),
        };
        let mut rows = vec![];
        let mut ended = false;
        let mut it = it;
        for _ in 0..=max {
            match it.next() {
                None => {
                    ended = true;
                    break;
                }
                Some(Ok(r)) => rows.push(Ok(StaticRow {
                    line: r.line,
                    inputs: r.inputs.iter().map(|i| (i.signal.name.clone(), V::from(i.value), i.changed)).collect(),
                    expected: r.expected.iter().map(|e| (e.signal.name.clone(), V::from(e.value))).collect(),
                })),
                Some(Err(e)) => {
                    rows.push(Err(miette_chain(&e)));
                    if !carry_on {
                        break;
                    }
                }
            }
        }
        StaticObs::Rows(rows, ended)
    });
    hooks::set_seed_override(None);
    let _ = hooks::take_draw_log();
    match r {
        Ok(o) => o,
        Err(Caught::Panic(s)) => StaticObs::Panic(s),
        Err(Caught::Watchdog) => StaticObs::Watchdog,
    }
}

/// The dynamic iterator driven by the crate's own public `static_test::Driver`, every row turned
/// into a `StaticDataRow` with the public `From` impl: what `try_iter_static` is documented to yield.
pub fn run_public_static_driver(tc: &dtr::TestCase, max: usize, seed: u64, budget: u64, carry_on: bool) -> StaticObs {
    hooks::set_seed_override(Some(seed));
    let r = guard(budget, || {
        let mut driver = dtr::static_test::Driver;
        let mut it = match tc.try_iter(&mut driver) {
            Ok(it) => it,
            Err(e) => return StaticObs::NotStatic(miette_chain(&e)),
        };
        let mut rows = vec![];
        let mut ended = false;
        for _ in 0..=max {
            match it.next() {
                None => {
                    ended = true;
                    break;
                }
                Some(Ok(row)) => {
                    let r = dtr::static_test::StaticDataRow::from(row);
                    rows.push(Ok(StaticRow {
                        line: r.line,
                        inputs: r.inputs.iter().map(|i| (i.signal.name.clone(), V::from(i.value), i.changed)).collect(),
                        expected: r.expected.iter().map(|e| (e.signal.name.clone(), V::from(e.value))).collect(),
                    }))
                }
                Some(Err(e)) => {
                    rows.push(Err(miette_chain(&e)));
                    if !carry_on {
                        break;
                    }
                }
            }
        }
        StaticObs::Rows(rows, ended)
    });
    hooks::set_seed_override(None);
    let _ = hooks::take_draw_log();
    match r {
        Ok(o) => o,
        Err(Caught::Panic(s)) => StaticObs::Panic(s),
        Err(Caught::Watchdog) => StaticObs::Watchdog,
    }
}

/// A driver that answers every call with the same values and can be sent to another thread.
struct ConstDriver<'a> {
    outs: Vec<(&'a dtr::Signal, dtr::OutputValue)>,
}

impl<'a> TestDriver for ConstDriver<'a> {
    type Error = Fault;
    fn write_input_and_read_output(&mut self, _inputs: &[dtr::InputEntry<'_>]) -> Result<Vec<dtr::OutputEntry<'_>>, Fault> {
        Ok(self.outs.iter().map(|(s, v)| dtr::OutputEntry { signal: s, value: *v }).collect())
    }
}

/// The iterator is created and advanced `on_first` times on the calling thread, then moved to a
/// freshly spawned thread for the remaining calls (at most `total` in all). One line per call:
/// the item and what `vars()` returns after it.
pub fn run_across_threads(tc: &dtr::TestCase, answer: &[(String, V)], on_first: usize, total: usize) -> Vec<String> {
    hooks::set_seed_override(Some(1));
    let mut driver = ConstDriver { outs: answer.iter().filter_map(|(n, v)| tc.signals.iter().find(|s| &s.name == n).map(|s| (s, v.to_output()))).collect() };
    let mut lines = vec![];
    // every call into the subject runs under the step watchdog of the thread it runs on
    let step = |it: &mut dtr::DataRowIterator<'_, '_, ConstDriver<'_>>| -> (String, bool) {
        match guard(200_000, || {
            let item = item_of(it.next());
            let end = item == ObsItem::End;
            let mut v: Vec<(String, i64)> = it.vars().into_iter().collect();
            v.sort();
            (format!("{} vars {:?}", item.brief(), v), end)
        }) {
            Ok(x) => x,
            Err(c) => (format!("{c:?}"), true),
        }
    };
    let r = std::panic::catch_unwind(std::panic::AssertUnwindSafe(|| {
        let Ok(Ok(mut it)) = guard(200_000, || tc.try_iter(&mut driver)) else {
            lines.push("construction failed".to_string());
            return;
        };
        let mut ended = false;
        for _ in 0..on_first.min(total) {
            let (l, e) = step(&mut it);
            lines.push(l);
            if e {
                ended = true;
                break;
            }
        }
        if !ended && on_first < total {
            let rest = std::thread::scope(|s| {
                s.spawn(move || {
                    let mut out = vec![];
                    for _ in on_first..total {
                        let (l, e) = step(&mut it);
                        out.push(l);
                        if e {
                            break;
                        }
                    }
                    out
                })
                .join()
            });
            match rest {
                Ok(v) => lines.extend(v),
                Err(p) => lines.push(format!("PANIC on the second thread: {}", p.downcast_ref::<String>().cloned().or(p.downcast_ref::<&str>().map(|s| s.to_string())).unwrap_or_default())),
            }
        }
    }));
    if r.is_err() {
        lines.push("PANIC".to_string());
    }
    hooks::set_seed_override(None);
    let _ = hooks::take_draw_log();
    lines
}


/// A driver whose error type is `std::io::Error` (as in the crate's own example): it answers every
/// call with `answer` and fails once, at call number `fail_at`, with an error of kind `kind`.
struct IoDriver<'a> {
    outs: Vec<(&'a dtr::Signal, dtr::OutputValue)>,
    fail_at: usize,
    kind: std::io::ErrorKind,
    calls: usize,
}

impl<'a> TestDriver for IoDriver<'a> {
    type Error = std::io::Error;
    fn write_input_and_read_output(&mut self, _inputs: &[dtr::InputEntry<'_>]) -> Result<Vec<dtr::OutputEntry<'_>>, std::io::Error> {
        let n = self.calls;
        self.calls += 1;
        if n == self.fail_at {
            return Err(std::io::Error::new(self.kind, "injected"));
        }
        Ok(self.outs.iter().map(|(s, v)| dtr::OutputEntry { signal: s, value: *v }).collect())
    }
}

/// Run `tc` against an `io::Error` driver that fails once: one line per item ("row", "driver error
/// <kind>", "error", "end") and the number of calls the driver saw after each.
pub fn run_io_driver(tc: &dtr::TestCase, answer: &[(String, V)], fail_at: usize, kind: std::io::ErrorKind, max: usize) -> Vec<String> {
    run_io_driver_via(tc, answer, fail_at, kind, max, false)
}

/// As `run_io_driver`; `deprecated_name` constructs the iterator through `run_iter`, the deprecated
/// name of `try_iter`.
#[allow(deprecated)]
pub fn run_io_driver_via(tc: &dtr::TestCase, answer: &[(String, V)], fail_at: usize, kind: std::io::ErrorKind, max: usize, deprecated_name: bool) -> Vec<String> {
    hooks::set_seed_override(Some(1));
    let mut driver = IoDriver { outs: answer.iter().filter_map(|(n, v)| tc.signals.iter().find(|s| &s.name == n).map(|s| (s, v.to_output()))).collect(), fail_at, kind, calls: 0 };
    let mut lines = vec![];
    let r = guard(DEFAULT_BUDGET, || {
        let mut out = vec![];
        let made = if deprecated_name { tc.run_iter(&mut driver) } else { tc.try_iter(&mut driver) };
        let mut it = match made {
            Ok(it) => it,
            Err(dtr::errors::IterationError::Driver(e)) => {
                out.push(format!("constructor: driver error {:?}", e.kind()));
                return out;
            }
            Err(_) => {
                out.push("constructor: error".to_string());
                return out;
            }
        };
        for _ in 0..max {
            match it.next() {
                None => {
                    out.push("end".to_string());
                    break;
                }
                Some(Ok(r)) => out.push(format!(
                    "row line {} inputs [{}] outputs [{}]",
                    r.line,
                    r.inputs.iter().map(|e| format!("{}={}{}", e.signal.name, e.value, if e.changed { "*" } else { "" })).collect::<Vec<_>>().join(" "),
                    r.outputs.iter().map(|e| format!("{}={}/{}", e.signal.name, e.output, e.expected)).collect::<Vec<_>>().join(" ")
                )),
                Some(Err(dtr::errors::IterationError::Driver(e))) => out.push(format!("driver error {:?}", e.kind())),
                Some(Err(_)) => out.push("error".to_string()),
            }
        }
        out
    });
    match r {
        Ok(v) => lines.extend(v),
        Err(c) => lines.push(format!("{c:?}")),
    }
    lines.push(format!("calls: {}", driver.calls));
    hooks::set_seed_override(None);
    let _ = hooks::take_draw_log();
    lines
}
