//! E1 — explicit-state search of the run-time protocol between the real DataRowIterator
//! and a scripted driver, in lock-step with the reference interpreter (DESIGN §0, §5.1).
//! Engine: stateright (BFS). A state is a history (script of driver answers + number of
//! next() calls); the real iterator is rebuilt by replaying the history; states are
//! de-duplicated on a canonical key of both machines.

use crate::driver::*;
use crate::engine::*;
use crate::model::*;
use crate::refsem::*;
use crate::subject::*;
use digital_test_runner as dtr;
use stateright::{Checker, Model, Property};
use std::collections::HashSet;
use std::hash::{Hash, Hasher};
use std::sync::{Arc, Mutex};

#[derive(Clone, Debug)]
pub struct MenuItem {
    pub step: Step,
    /// counts against the deviation budget (faults, layout deviations)
    pub deviation: bool,
    pub label: String,
}

impl MenuItem {
    pub fn ans(a: Answer) -> MenuItem {
        let label = a.iter().map(|(n, v)| format!("{n}={}", v.show())).collect::<Vec<_>>().join(" ");
        MenuItem { step: Step::Ans(a), deviation: false, label }
    }
}

pub struct Case {
    pub name: String,
    pub prog: Program,
    pub text: String,
    pub sigs: Vec<Sig>,
    pub ov: bool,
    pub tc: Option<dtr::TestCase>,
    pub load_error: Option<ObsInit>,
    pub init_menu: Vec<MenuItem>,
    pub menu: Vec<MenuItem>,
    /// what a driver that does not override write_input answers to a mid-clock call
    pub mid: Step,
    /// environment choices at a write-only / mid-clock call (default: just `mid`)
    pub w_menu: Vec<MenuItem>,
    pub extra_known: Vec<Sig>,
    pub dev_budget: u8,
    /// continue after an error item that was produced after its driver call was made
    pub continue_after_call_errors: bool,
    pub max_depth: usize,
    /// call vars() after every next()
    pub collect_vars: bool,
    /// also carry on after a row that could not be evaluated (error item without a call)
    pub continue_after_row_errors: bool,
    /// reference fuel (steps, rows)
    pub fuel: (usize, usize),
}

impl Case {
    pub fn new(name: &str, prog: Program, sigs: Vec<Sig>, ov: bool, init_menu: Vec<MenuItem>, menu: Vec<MenuItem>, max_depth: usize) -> Case {
        let text = text(&prog);
        let (tc, load_error) = match load(&text, &sigs, DEFAULT_BUDGET) {
            Ok(tc) => (Some(tc), None),
            Err(e) => (None, Some(e)),
        };
        let mid: Answer = sigs.iter().filter(|s| s.is_out()).map(|s| (s.name.clone(), V::Num(3))).collect();
        Case { name: name.into(), prog, text, sigs, ov, tc, load_error, init_menu, menu, mid: Step::Ans(mid), w_menu: vec![], extra_known: vec![], dev_budget: 0, continue_after_call_errors: false, max_depth, collect_vars: false, continue_after_row_errors: false, fuel: (3000, 200) }
    }
}

const MID: u16 = u16::MAX;
const W_BASE: u16 = 60000;

#[derive(Clone, Copy, Debug, PartialEq, Eq, Hash)]
pub enum Next {
    /// the next next() makes an output-reading call: the environment chooses the answer
    Answers,
    /// the next next() makes a write-only call
    WriteOnly,
    /// the next next() needs no new answer (pending error item, or the end)
    Plain,
    Terminal,
}

#[derive(Clone, Debug)]
pub struct St {
    pub case: u32,
    pub script: Vec<u16>,
    pub steps: u16,
    pub constructed: bool,
    pub next: Next,
    pub after_end: u8,
    pub devs: u8,
    pub key: u64,
}

impl PartialEq for St {
    fn eq(&self, o: &St) -> bool {
        self.case == o.case && self.steps == o.steps && self.key == o.key && self.next == o.next && self.after_end == o.after_end && self.devs == o.devs && self.constructed == o.constructed
    }
}
impl Eq for St {}
impl Hash for St {
    fn hash<H: Hasher>(&self, h: &mut H) {
        (self.case, self.steps, self.key, self.next, self.after_end, self.devs, self.constructed).hash(h)
    }
}

#[derive(Clone, Debug, PartialEq, Eq)]
pub enum Act {
    Answer(u16),
    Step,
}

/// What the oracle sees after one transition
pub struct Seen<'a> {
    pub case: &'a Case,
    pub script: &'a [Step],
    pub reference: &'a RefRun,
    pub obs: &'a Obs,
    /// index of the item this transition produced; None: the construction
    pub item: Option<usize>,
    /// the reference says the run has ended and this next() is a call after the end
    pub after_end: bool,
    /// index of the call (0 = constructor) that carries the fault / layout deviation, if any
    pub deviation_call: Option<usize>,
    /// indices of all calls that carry a fault / layout deviation
    pub deviation_calls: Vec<usize>,
}

pub type Oracle = Arc<dyn Fn(&Seen<'_>, &mut Stats) -> Option<(String, String)> + Send + Sync>;

pub struct E1Model {
    pub cases: Arc<Vec<Case>>,
    pub oracle: Oracle,
    pub shards: Arc<Vec<Mutex<Stats>>>,
    pub keys: Arc<Vec<Mutex<HashSet<u64>>>>,
    /// false: every history is its own state (stateless exploration, used to validate the key)
    pub merge: bool,
}

fn shard_index() -> usize {
    let id = std::thread::current().id();
    (hash64(&id) % 64) as usize
}

impl E1Model {
    fn steps_of(&self, case: &Case, script: &[u16]) -> Vec<Step> {
        script
            .iter()
            .enumerate()
            .map(|(k, &i)| {
                if i == MID {
                    case.mid.clone()
                } else if i >= W_BASE {
                    case.w_menu[(i - W_BASE) as usize].step.clone()
                } else if k == 0 {
                    case.init_menu[i as usize].step.clone()
                } else {
                    case.menu[i as usize].step.clone()
                }
            })
            .collect()
    }

    fn with_stats<R>(&self, f: impl FnOnce(&mut Stats) -> R) -> R {
        let mut g = self.shards[shard_index()].lock().unwrap();
        f(&mut g)
    }

    fn run_ref(&self, case: &Case, steps: &[Step]) -> RefRun {
        let mut env = ScriptEnv::new(steps);
        let mut r = run_opts2(&case.prog, &case.sigs, &mut env, Fuel { steps: case.fuel.0, rows: case.fuel.1 }, case.continue_after_call_errors, case.continue_after_row_errors);
        if r.init == RefInit::Ok && r.end == RefEnd::Halt && r.halted_on_rw.is_none() {
            r.halted_on_rw = Some(true);
        }
        r
    }
}

impl Model for E1Model {
    type State = St;
    type Action = Act;

    fn init_states(&self) -> Vec<St> {
        (0..self.cases.len()).map(|c| St { case: c as u32, script: vec![], steps: 0, constructed: false, next: Next::Answers, after_end: 0, devs: 0, key: 0 }).collect()
    }

    fn actions(&self, s: &St, out: &mut Vec<Act>) {
        let case = &self.cases[s.case as usize];
        if s.steps as usize >= case.max_depth {
            return;
        }
        match s.next {
            Next::Terminal => {}
            Next::Plain => out.push(Act::Step),
            Next::WriteOnly => {
                out.push(Act::Step);
                for (i, m) in case.w_menu.iter().enumerate() {
                    if m.deviation && s.devs >= case.dev_budget {
                        continue;
                    }
                    out.push(Act::Answer(W_BASE + i as u16));
                }
            }
            Next::Answers => {
                let menu = if s.constructed { &case.menu } else { &case.init_menu };
                for (i, m) in menu.iter().enumerate() {
                    if m.deviation && s.devs >= case.dev_budget {
                        continue;
                    }
                    out.push(Act::Answer(i as u16));
                }
            }
        }
    }

    fn next_state(&self, s: &St, a: Act) -> Option<St> {
        let case = &self.cases[s.case as usize];
        let mut script = s.script.clone();
        let mut devs = s.devs;
        match (&a, s.next) {
            (Act::Answer(i), Next::Answers) => {
                let menu = if s.constructed { &case.menu } else { &case.init_menu };
                if menu[*i as usize].deviation {
                    devs += 1;
                }
                script.push(*i);
            }
            (Act::Step, Next::WriteOnly) => script.push(MID),
            (Act::Answer(i), Next::WriteOnly) => {
                if case.w_menu[(*i - W_BASE) as usize].deviation {
                    devs += 1;
                }
                script.push(*i);
            }
            (Act::Step, Next::Plain) => {}
            _ => return None,
        }
        let steps_list = self.steps_of(case, &script);
        let nsteps = if s.constructed { s.steps as usize + 1 } else { 0 };
        let r = self.run_ref(case, &steps_list);
        // calls after the end of the iteration are extra calls for the adapter
        let wanted_after = if r.end == RefEnd::Done { nsteps.saturating_sub(r.items.len() + 1) } else { 0 };
        let mut opts = RunOpts::new(nsteps - wanted_after);
        opts.collect_key = true;
        opts.collect_vars = case.collect_vars;
        opts.extra_known = case.extra_known.clone();
        opts.continue_after_error = case.continue_after_call_errors || case.continue_after_row_errors;
        opts.after_end = wanted_after;
        let obs = match &case.tc {
            Some(tc) => run_loaded(tc, &case.sigs, case.ov, &steps_list, &opts),
            None => crate::props::util::not_loaded(case.load_error.as_ref().unwrap()),
        };
        let item = if s.constructed { Some(s.steps as usize) } else { None };
        let after_end_call = s.constructed && r.end == RefEnd::Done && s.steps as usize >= r.items.len();
        let is_dev = |k: usize, i: u16| -> bool {
            if i == MID {
                false
            } else if i >= W_BASE {
                case.w_menu[(i - W_BASE) as usize].deviation
            } else if k == 0 {
                case.init_menu[i as usize].deviation
            } else {
                case.menu[i as usize].deviation
            }
        };
        let deviation_calls: Vec<usize> = script.iter().enumerate().filter(|(k, &i)| is_dev(*k, i)).map(|(k, _)| k).collect();
        let deviation_call = deviation_calls.first().copied();
        let seen = Seen { case, script: &steps_list, reference: &r, obs: &obs, item, after_end: after_end_call && s.steps as usize > r.items.len(), deviation_call, deviation_calls };
        let verdict = self.with_stats(|st| {
            st.transitions += 1;
            st.traces += 1;
            st.steps += 1;
            st.max_depth = st.max_depth.max(nsteps as u64);
            for e in &r.events {
                st.witness(e);
            }
            (self.oracle)(&seen, st)
        });
        // classify the successor
        let produced = nsteps; // number of items the implementation has produced
        let mut next = if r.init != RefInit::Ok {
            Next::Terminal
        } else if r.items.len() > produced {
            Next::Plain
        } else {
            match r.end {
                RefEnd::Halt => {
                    if r.halted_on_rw == Some(false) {
                        Next::WriteOnly
                    } else {
                        Next::Answers
                    }
                }
                RefEnd::Done => {
                    if s.after_end + (after_end_call as u8) < 3 {
                        Next::Plain
                    } else {
                        Next::Terminal
                    }
                }
                RefEnd::Stopped | RefEnd::Fuel => Next::Terminal,
            }
        };
        if let Some((class, msg)) = verdict {
            next = Next::Terminal;
            let order = (nsteps as u64) << 48 | (s.case as u64) << 24 | (hash64(&script) & 0xff_ffff);
            self.with_stats(|st| {
                let summary = format!("case: {}\nprogram:\n{}driver {} write_input\nscript: {}\n{msg}", case.name, case.text, if case.ov { "overrides" } else { "does not override" }, steps_list.iter().map(|s| s.json().to_string()).collect::<Vec<_>>().join(" "));
                let o2 = opts.clone();
                st.violation(&class, order, summary, || crate::props::util::dyn_replay(&case.text, &case.sigs, case.ov, &steps_list, &o2, crate::compare::ref_items_brief(&r), &obs, &msg));
            });
        }
        let pending: Vec<&RefItem> = r.items.iter().skip(produced).collect();
        let mut key = hash64(&(obs.key.as_deref().unwrap_or(""), &r.key, format!("{:?}", pending), format!("{:?}", r.end), obs.draws.len()));
        if !self.merge {
            key = hash64(&(key, &script, produced));
        }
        // identity of the case by content (not by its index, which differs between explorations)
        let case_id = hash64(&(&case.text, case.sigs.iter().map(|s| s.show()).collect::<Vec<_>>(), case.ov, case.init_menu.iter().map(|m| m.label.clone()).collect::<Vec<_>>()));
        self.keys[shard_index()].lock().unwrap().insert(hash64(&(case_id, obs.key.as_deref().unwrap_or(""), &r.key)));
        Some(St {
            case: s.case,
            script,
            steps: produced as u16,
            constructed: true,
            next,
            after_end: s.after_end + after_end_call as u8,
            devs,
            key,
        })
    }

    fn properties(&self) -> Vec<Property<Self>> {
        vec![Property::always("explored states stay within the depth bound", |m: &E1Model, s: &St| (s.steps as usize) <= m.cases[s.case as usize].max_depth + 1)]
    }
}

/// Thorough-tier validation of the state key (DESIGN §5.1): re-explore `slice` with every
/// history as its own state and require that every (implementation key, reference key) pair
/// it reaches was also reached by the merged exploration, and that it finds no violation.
pub fn validate_key(st: &mut Stats, merged_keys: &HashSet<u64>, slice: Vec<Case>, oracle: Oracle, deadline: &Deadline) {
    if slice.is_empty() || !st.violations.is_empty() {
        return;
    }
    let n = slice.len();
    let un = explore(slice, oracle, false, deadline);
    let missing = un.keys.iter().filter(|k| !merged_keys.contains(k)).count();
    st.extra.insert("stateless_recheck_cases".into(), serde_json::json!(n));
    st.extra.insert("stateless_recheck_states".into(), serde_json::json!(un.stats.states));
    st.extra.insert("stateless_recheck_keypairs_not_seen_by_merged_run".into(), serde_json::json!(missing));
    if missing > 0 && un.stats.caps.is_empty() && st.caps.is_empty() {
        st.violation("state key unsound", 0, format!("{missing} (implementation key, reference key) pairs reached by the stateless exploration were never visited by the merged exploration"), || serde_json::json!({"kind": "none", "observed": [], "expected": []}));
    }
    for (k, v) in un.stats.violations {
        st.violations.insert(format!("{k} (stateless)"), v);
    }
}

pub struct E1Result {
    pub stats: Stats,
    pub keys: HashSet<u64>,
}

/// Explore all cases. Returns merged statistics (violations inside).
pub fn explore(cases: Vec<Case>, oracle: Oracle, merge: bool, deadline: &Deadline) -> E1Result {
    let ncases = cases.len();
    let depth = cases.iter().map(|c| c.max_depth).max().unwrap_or(0);
    let shards: Arc<Vec<Mutex<Stats>>> = Arc::new((0..64).map(|_| Mutex::new(Stats::default())).collect());
    let keys: Arc<Vec<Mutex<HashSet<u64>>>> = Arc::new((0..64).map(|_| Mutex::new(HashSet::new())).collect());
    let model = E1Model { cases: Arc::new(cases), oracle, shards: shards.clone(), keys: keys.clone(), merge };
    let remaining = deadline.at.saturating_duration_since(std::time::Instant::now());
    let checker = model.checker().threads(threads()).target_max_depth(depth + 8).timeout(remaining).spawn_bfs().join();
    let mut st = Stats::default();
    for sh in shards.iter() {
        let s = std::mem::take(&mut *sh.lock().unwrap());
        st.merge(s);
    }
    st.states = checker.unique_state_count() as u64;
    st.evals = st.transitions;
    st.space("cases (program x driver variant)", ncases as u64);
    if !checker.is_done() || deadline.expired() {
        st.caps.push("wall cap hit during explicit-state search: the graph was not explored completely".into());
    }
    if let Some(p) = checker.discovery("explored states stay within the depth bound") {
        st.violation("engine invariant", 0, format!("engine invariant violated: {:?}", p.last_state()), || serde_json::json!({"kind": "none"}));
    }
    let mut all = HashSet::new();
    for k in keys.iter() {
        all.extend(k.lock().unwrap().drain());
    }
    E1Result { stats: st, keys: all }
}
