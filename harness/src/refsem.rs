//! Reference semantics (DESIGN §3.3): a deliberately naive recursive interpreter
//! over the generating AST, written from the property statements. It never looks
//! at the subject's parse. It is the oracle for most checks.

use crate::model::*;
use std::collections::{BTreeSet, HashMap};

#[derive(Clone, Debug, PartialEq, Eq, Hash)]
pub enum RefErr {
    DivZero,
    Unassigned(String),
    NonNumeric(String, V),
    EmptyRandom(i64),
    NotImplemented,
}

pub type Answer = Vec<(String, V)>;

pub enum EnvRw {
    Ans(Answer),
    Fault(u32),
    Halt,
}
pub enum EnvW {
    Ok,
    Fault(u32),
    Halt,
}

/// The environment of a run: the device's answers and the random draws.
pub trait Env {
    fn rw(&mut self, inputs: &[(String, V)]) -> EnvRw;
    fn w(&mut self, inputs: &[(String, V)]) -> EnvW;
    /// next draw for `random(bound)`, None: no more draws known (halts the run)
    fn draw(&mut self, _bound: i64) -> Option<i64> {
        None
    }
    fn reset_random(&mut self) {}
}

#[derive(Clone, Debug, PartialEq, Eq, Hash)]
pub struct RefOut {
    pub name: String,
    pub bits: usize,
    pub output: V,
    pub expected: V,
}

#[derive(Clone, Debug, PartialEq, Eq, Hash)]
pub struct RefRow {
    /// pre-order index of the generating Row/Repeat node
    pub node: usize,
    pub inputs: Vec<(String, V)>,
    pub checked: bool,
    /// empty for unchecked rows
    pub outputs: Vec<RefOut>,
    /// flattened variable environment when the row was evaluated, sorted by name
    pub vars: Vec<(String, i64)>,
}

#[derive(Clone, Debug, PartialEq, Eq, Hash)]
pub enum RefItem {
    Row(RefRow),
    /// evaluation failed before any call was made for this item
    ExprErr(RefErr),
    /// the call was made, then a virtual signal failed to evaluate
    VirtErr(RefErr),
    DriverErr(u32),
}

#[derive(Clone, Copy, Debug, PartialEq, Eq, Hash)]
pub enum RefEnd {
    Done,
    /// the environment had no further answer / draw
    Halt,
    /// an error item was produced; callers stop there
    Stopped,
    Fuel,
}

#[derive(Clone, Debug, PartialEq, Eq)]
pub enum RefInit {
    Ok,
    Driver(u32),
    MissingOutputs(Vec<String>),
    Halt,
}

#[derive(Clone, Debug)]
pub struct RefRun {
    pub init_inputs: Vec<(String, V)>,
    pub init: RefInit,
    pub items: Vec<RefItem>,
    pub end: RefEnd,
    /// canonical key of the continuation at the point where the run halted (E1 de-duplication)
    pub key: String,
    /// what the next call would have been when the run halted: Some(true) = output-reading
    pub halted_on_rw: Option<bool>,
    pub events: BTreeSet<&'static str>,
    pub calls: usize,
    /// (address of the loop/repeat statement, value its bound evaluated to), in evaluation order
    pub bound_evals: Vec<(usize, i64)>,
}

pub fn mask(n: i64, bits: usize) -> i64 {
    if bits >= 64 {
        n
    } else {
        ((n as u64) & ((1u64 << bits) - 1)) as i64
    }
}

pub fn binop(op: BinOp, a: i64, b: i64) -> Result<i64, RefErr> {
    Ok(match op {
        BinOp::Add => a.wrapping_add(b),
        BinOp::Sub => a.wrapping_sub(b),
        BinOp::Mul => a.wrapping_mul(b),
        BinOp::Div => {
            if b == 0 {
                return Err(RefErr::DivZero);
            }
            if a == i64::MIN && b == -1 {
                i64::MIN
            } else {
                a / b
            }
        }
        BinOp::Rem => {
            if b == 0 {
                return Err(RefErr::DivZero);
            }
            if b == -1 {
                0
            } else {
                a % b
            }
        }
        BinOp::Shl => ((a as u64) << ((b as u64) & 63)) as i64,
        BinOp::Shr => a >> ((b as u64) & 63),
        BinOp::And => a & b,
        BinOp::Or => a | b,
        BinOp::Xor => a ^ b,
        BinOp::Lt => (a < b) as i64,
        BinOp::Gt => (a > b) as i64,
        BinOp::Le => (a <= b) as i64,
        BinOp::Ge => (a >= b) as i64,
        BinOp::Eq => (a == b) as i64,
        BinOp::Ne => (a != b) as i64,
    })
}

pub fn unop(op: UnOp, a: i64) -> i64 {
    match op {
        UnOp::Neg => 0i64.wrapping_sub(a),
        UnOp::Not => (a == 0) as i64,
        UnOp::Inv => !a,
    }
}

/// Evaluate an expression without random/signExt over a plain valuation
pub fn eval_pure(e: &Expr, lookup: &dyn Fn(&str) -> Option<i64>) -> Result<i64, RefErr> {
    Ok(match e {
        Expr::Lit(n, _) => *n,
        Expr::Name(n) => lookup(n).ok_or_else(|| RefErr::Unassigned(n.clone()))?,
        Expr::Un(op, a) => unop(*op, eval_pure(a, lookup)?),
        Expr::Bin(op, a, b) => {
            let x = eval_pure(a, lookup)?;
            let y = eval_pure(b, lookup)?;
            binop(*op, x, y)?
        }
        Expr::Ite(c, a, b) => {
            if eval_pure(c, lookup)? != 0 {
                eval_pure(a, lookup)?
            } else {
                eval_pure(b, lookup)?
            }
        }
        Expr::Group(a) | Expr::Raw(_, a) => eval_pure(a, lookup)?,
        Expr::Random(_) | Expr::SignExt(..) => return Err(RefErr::NotImplemented),
    })
}

/// Build the tree of a flat chain `o0 op0 o1 op1 o2 ...` by the reference precedence:
/// levels from tightest to loosest, left-associative within a level.
pub fn climb(mut operands: Vec<Expr>, mut ops: Vec<BinOp>) -> Expr {
    assert_eq!(operands.len(), ops.len() + 1);
    for level in 1..=8 {
        let mut i = 0;
        while i < ops.len() {
            if ops[i].level() == level {
                let r = operands.remove(i + 1);
                let l = operands.remove(i);
                operands.insert(i, bin(ops[i], l, r));
                ops.remove(i);
            } else {
                i += 1;
            }
        }
    }
    assert!(ops.is_empty());
    operands.pop().unwrap()
}

// ---------------------------------------------------------------------------
// Binding of header columns to signals

#[derive(Clone, Debug, PartialEq, Eq)]
pub enum OutRef {
    Real(usize),
    Virt(usize),
}

#[derive(Clone, Debug)]
pub struct Bound {
    /// (signal index, header column) per input-capable signal in signal-list order
    pub ins: Vec<(usize, Option<usize>)>,
    /// per output-capable signal in signal-list order, then per declaration in source order
    pub outs: Vec<(OutRef, Option<usize>)>,
    /// per header column: does an input-capable signal take its value from it?
    pub input_col: Vec<bool>,
}

pub fn bind(header: &[String], signals: &[Sig], declares: &[(String, Expr)]) -> Bound {
    let col = |n: &str| header.iter().position(|h| h == n);
    let mut ins = vec![];
    let mut outs = vec![];
    let mut input_col = vec![false; header.len()];
    for (i, s) in signals.iter().enumerate() {
        if s.is_in() {
            let c = col(&s.name);
            if let Some(c) = c {
                input_col[c] = true;
            }
            ins.push((i, c));
        }
        match s.kind {
            Kind::Out => outs.push((OutRef::Real(i), col(&s.name))),
            Kind::Bidir(_) => outs.push((OutRef::Real(i), col(&format!("{}_out", s.name)))),
            Kind::In(_) => {}
        }
    }
    for (i, (n, _)) in declares.iter().enumerate() {
        outs.push((OutRef::Virt(i), col(n)));
    }
    Bound { ins, outs, input_col }
}

// ---------------------------------------------------------------------------
// Static judgements (C11, C15)

/// Names read by some expression at a place where no variable of that name is statically in
/// scope (first occurrence order, unique).
pub fn static_reads(p: &Program) -> Vec<String> {
    fn expr(e: &Expr, scope: &Vec<Vec<String>>, visible: bool, out: &mut Vec<String>) {
        match e {
            Expr::Lit(..) => {}
            Expr::Name(n) => {
                let in_scope = visible && scope.iter().any(|f| f.contains(n));
                if !in_scope && !out.contains(n) {
                    out.push(n.clone());
                }
            }
            Expr::Un(_, a) | Expr::Random(a) | Expr::Group(a) | Expr::Raw(_, a) => expr(a, scope, visible, out),
            Expr::Bin(_, a, b) | Expr::SignExt(a, b) => {
                expr(a, scope, visible, out);
                expr(b, scope, visible, out);
            }
            Expr::Ite(c, a, b) => {
                expr(c, scope, visible, out);
                expr(a, scope, visible, out);
                expr(b, scope, visible, out);
            }
        }
    }
    fn entries(es: &[Entry], scope: &Vec<Vec<String>>, out: &mut Vec<String>) {
        for e in es {
            match e {
                Entry::Paren(x) | Entry::Bits(_, x) => expr(x, scope, true, out),
                _ => {}
            }
        }
    }
    fn walk(stmts: &[Stmt], scope: &mut Vec<Vec<String>>, out: &mut Vec<String>) {
        for s in stmts {
            match s {
                Stmt::Row(es) => entries(es, scope, out),
                Stmt::Let(n, e) => {
                    expr(e, scope, true, out);
                    let f = scope.last_mut().unwrap();
                    if !f.contains(n) {
                        f.push(n.clone());
                    }
                }
                Stmt::Declare(_, e) => expr(e, scope, false, out),
                Stmt::ResetRandom => {}
                Stmt::Loop(v, e, body) => {
                    expr(e, scope, true, out);
                    scope.push(vec![v.clone()]);
                    walk(body, scope, out);
                    scope.pop();
                }
                Stmt::Repeat(e, es) => {
                    expr(e, scope, true, out);
                    scope.push(vec!["n".to_string()]);
                    entries(es, scope, out);
                    scope.pop();
                }
                Stmt::While(e, body) => {
                    expr(e, scope, true, out);
                    walk(body, scope, out);
                }
            }
        }
    }
    let mut out = vec![];
    let mut scope = vec![vec![]];
    walk(&p.body, &mut scope, &mut out);
    out
}

/// The identifier occurrences (by address inside `p`) that stand where a variable of that name
/// is statically in scope: these are variables and never mean a device output, whether or not
/// the variable has been assigned on the executed path.
pub fn lexical_names(p: &Program) -> std::collections::HashSet<usize> {
    use std::collections::HashSet;
    fn expr(e: &Expr, scope: &Vec<Vec<String>>, out: &mut HashSet<usize>) {
        match e {
            Expr::Lit(..) => {}
            Expr::Name(n) => {
                if scope.iter().any(|f| f.contains(n)) {
                    out.insert(e as *const Expr as usize);
                }
            }
            Expr::Un(_, a) | Expr::Random(a) | Expr::Group(a) | Expr::Raw(_, a) => expr(a, scope, out),
            Expr::Bin(_, a, b) | Expr::SignExt(a, b) => {
                expr(a, scope, out);
                expr(b, scope, out);
            }
            Expr::Ite(c, a, b) => {
                expr(c, scope, out);
                expr(a, scope, out);
                expr(b, scope, out);
            }
        }
    }
    fn entries(es: &[Entry], scope: &Vec<Vec<String>>, out: &mut HashSet<usize>) {
        for e in es {
            if let Entry::Paren(x) | Entry::Bits(_, x) = e {
                expr(x, scope, out);
            }
        }
    }
    fn walk(stmts: &[Stmt], scope: &mut Vec<Vec<String>>, out: &mut HashSet<usize>) {
        for s in stmts {
            match s {
                Stmt::Row(es) => entries(es, scope, out),
                Stmt::Let(n, e) => {
                    expr(e, scope, out);
                    let f = scope.last_mut().unwrap();
                    if !f.contains(n) {
                        f.push(n.clone());
                    }
                }
                Stmt::Declare(..) | Stmt::ResetRandom => {}
                Stmt::Loop(v, e, body) => {
                    expr(e, scope, out);
                    scope.push(vec![v.clone()]);
                    walk(body, scope, out);
                    scope.pop();
                }
                Stmt::Repeat(e, es) => {
                    expr(e, scope, out);
                    scope.push(vec!["n".to_string()]);
                    entries(es, scope, out);
                    scope.pop();
                }
                Stmt::While(e, body) => {
                    expr(e, scope, out);
                    walk(body, scope, out);
                }
            }
        }
    }
    let mut out = HashSet::new();
    let mut scope = vec![vec![]];
    walk(&p.body, &mut scope, &mut out);
    out
}

/// Header columns that hold `C` in some row (anywhere in the program)
pub fn c_columns(p: &Program) -> BTreeSet<usize> {
    fn walk(stmts: &[Stmt], out: &mut BTreeSet<usize>) {
        for s in stmts {
            match s {
                Stmt::Row(es) | Stmt::Repeat(_, es) => {
                    let mut c = 0;
                    for e in es {
                        if *e == Entry::C {
                            out.insert(c);
                        }
                        c += e.width();
                    }
                }
                Stmt::Loop(_, _, b) | Stmt::While(_, b) => walk(b, out),
                _ => {}
            }
        }
    }
    let mut out = BTreeSet::new();
    walk(&p.body, &mut out);
    out
}

#[derive(Clone, Debug, PartialEq, Eq)]
pub enum BindReject {
    DuplicateSignal,
    SignalIsVirtual,
    UnknownColumn,
    ClockNotInput,
    ReadNotOutput,
}

/// The four clauses of C11.
pub fn bind_judgement(p: &Program, signals: &[Sig]) -> Result<(), BindReject> {
    let decl = p.declares();
    for (i, s) in signals.iter().enumerate() {
        if signals[..i].iter().any(|t| t.name == s.name) {
            return Err(BindReject::DuplicateSignal);
        }
    }
    for (n, _) in &decl {
        if signals.iter().any(|s| &s.name == n) {
            return Err(BindReject::SignalIsVirtual);
        }
    }
    for h in &p.header {
        let ok = signals.iter().any(|s| match s.kind {
            Kind::In(_) | Kind::Out => &s.name == h,
            Kind::Bidir(_) => &s.name == h || &format!("{}_out", s.name) == h,
        }) || decl.iter().any(|(n, _)| n == h);
        if !ok {
            return Err(BindReject::UnknownColumn);
        }
    }
    for c in c_columns(p) {
        let h = &p.header[c];
        if !signals.iter().any(|s| &s.name == h && s.is_in()) {
            return Err(BindReject::ClockNotInput);
        }
    }
    for n in static_reads(p) {
        if !signals.iter().any(|s| s.name == n && s.is_out()) {
            return Err(BindReject::ReadNotOutput);
        }
    }
    Ok(())
}

// ---------------------------------------------------------------------------
// The interpreter

#[derive(Clone, Copy, Debug, PartialEq, Eq)]
enum EV {
    Num(i64),
    X,
    Z,
    C,
}

enum Stop {
    Halt,
    Err,
    Fuel,
}

pub struct Fuel {
    pub steps: usize,
    pub rows: usize,
}

impl Default for Fuel {
    fn default() -> Self {
        Fuel { steps: 600, rows: 40 }
    }
}

struct Interp<'a> {
    signals: &'a [Sig],
    bound: Bound,
    declares: Vec<(String, Expr)>,
    env: &'a mut dyn Env,
    frames: Vec<Vec<(String, i64)>>,
    latest: Answer,
    items: Vec<RefItem>,
    steps_left: usize,
    rows_left: usize,
    path: Vec<(usize, i64, i64)>,
    key: String,
    halted_on_rw: Option<bool>,
    events: BTreeSet<&'static str>,
    node_ids: HashMap<*const Stmt, usize>,
    calls: usize,
    draws: usize,
    depth: usize,
    /// carry on after an error item whose driver call was made (driver fault, virtual signal)
    cont: bool,
    /// a row whose entries cannot be evaluated is replaced by an error item and the run goes on
    /// with the next statement (what a caller sees who carries on after such an item)
    cont_rows: bool,
    bound_evals: Vec<(usize, i64)>,
    lexical: std::collections::HashSet<usize>,
}

fn number_rows(stmts: &[Stmt], next: &mut usize, map: &mut HashMap<*const Stmt, usize>) {
    for s in stmts {
        match s {
            Stmt::Row(_) | Stmt::Repeat(..) => {
                map.insert(s as *const Stmt, *next);
                *next += 1;
            }
            Stmt::Loop(_, _, b) | Stmt::While(_, b) => number_rows(b, next, map),
            _ => {}
        }
    }
}

impl<'a> Interp<'a> {
    fn step(&mut self) -> Result<(), Stop> {
        if self.steps_left == 0 {
            return Err(Stop::Fuel);
        }
        self.steps_left -= 1;
        Ok(())
    }

    fn fail(&mut self, e: RefErr) -> Stop {
        self.items.push(RefItem::ExprErr(e));
        Stop::Err
    }

    fn lookup(&self, n: &str, vars_visible: bool) -> Result<i64, RefErr> {
        if vars_visible {
            for f in self.frames.iter().rev() {
                if let Some((_, v)) = f.iter().rev().find(|(k, _)| k == n) {
                    return Ok(*v);
                }
            }
        }
        match self.latest.iter().find(|(k, _)| k == n) {
            Some((_, V::Num(v))) => Ok(*v),
            Some((_, v)) => Err(RefErr::NonNumeric(n.to_string(), *v)),
            None => Err(RefErr::Unassigned(n.to_string())),
        }
    }

    /// Err(None) = halt (no draw available)
    fn eval(&mut self, e: &Expr, vars: bool) -> Result<i64, Option<RefErr>> {
        Ok(match e {
            Expr::Lit(n, _) => *n,
            Expr::Name(n) if vars && self.lexical.contains(&(e as *const Expr as usize)) => {
                // a variable by its place in the text: never the device output of that name
                match self.frames.iter().rev().find_map(|f| f.iter().rev().find(|(k, _)| k == n)) {
                    Some((_, v)) => *v,
                    None => return Err(Some(RefErr::Unassigned(n.clone()))),
                }
            }
            Expr::Name(n) => self.lookup(n, vars).map_err(Some)?,
            Expr::Un(op, a) => unop(*op, self.eval(a, vars)?),
            Expr::Bin(op, a, b) => {
                let x = self.eval(a, vars)?;
                let y = self.eval(b, vars)?;
                binop(*op, x, y).map_err(Some)?
            }
            Expr::Ite(c, a, b) => {
                if self.eval(c, vars)? != 0 {
                    self.eval(a, vars)?
                } else {
                    self.eval(b, vars)?
                }
            }
            Expr::Random(a) => {
                let n = self.eval(a, vars)?;
                if n < 2 {
                    return Err(Some(RefErr::EmptyRandom(n)));
                }
                self.events.insert("random_draw");
                self.draws += 1;
                match self.env.draw(n) {
                    Some(v) => v,
                    None => return Err(None),
                }
            }
            Expr::SignExt(a, b) => {
                // arguments are not evaluated by a function that does not exist
                let _ = (a, b);
                return Err(Some(RefErr::NotImplemented));
            }
            Expr::Group(a) | Expr::Raw(_, a) => self.eval(a, vars)?,
        })
    }

    fn ev(&mut self, e: &Expr) -> Result<i64, Stop> {
        match self.eval(e, true) {
            Ok(v) => Ok(v),
            Err(Some(err)) => Err(self.fail(err)),
            Err(None) => {
                self.make_key(0);
                Err(Stop::Halt)
            }
        }
    }

    fn set(&mut self, n: &str, v: i64) {
        let shadows = self.frames[..self.frames.len() - 1].iter().any(|f| f.iter().any(|(k, _)| k == n));
        let f = self.frames.last_mut().unwrap();
        if let Some(e) = f.iter_mut().find(|(k, _)| k == n) {
            e.1 = v;
        } else {
            f.push((n.to_string(), v));
            if shadows {
                self.events.insert("shadow");
            }
        }
    }

    fn flat_vars(&self) -> Vec<(String, i64)> {
        let mut m: Vec<(String, i64)> = vec![];
        for f in self.frames.iter().rev() {
            for (k, v) in f.iter().rev() {
                if !m.iter().any(|(k2, _)| k2 == k) {
                    m.push((k.clone(), *v));
                }
            }
        }
        m.sort();
        m
    }

    fn make_key(&mut self, sub: usize) {
        self.key = format!(
            "path={:?} frames={:?} latest={:?} sub={} draws={} items={}",
            self.path,
            self.frames,
            self.latest,
            sub,
            self.draws,
            // an error item already produced ends the run: position in the item list is not
            // part of the continuation, only whether we are still running
            0
        );
    }

    fn pop_frame(&mut self) {
        let f = self.frames.pop().unwrap();
        for (k, _) in &f {
            if self.frames.iter().any(|g| g.iter().any(|(k2, _)| k2 == k)) {
                self.events.insert("uncover");
            }
        }
    }

    fn exec(&mut self, stmts: &[Stmt]) -> Result<(), Stop> {
        for (i, s) in stmts.iter().enumerate() {
            self.step()?;
            self.path.push((i, 0, 0));
            let r = self.exec_one(s);
            if r.is_ok() {
                self.path.pop();
            }
            r?;
        }
        Ok(())
    }

    fn run_loop(&mut self, var: &str, n: i64, mut body: impl FnMut(&mut Self) -> Result<(), Stop>) -> Result<(), Stop> {
        if n <= 0 {
            self.events.insert(if n == 0 { "loop_bound_zero" } else { "loop_bound_negative" });
            return Ok(());
        }
        self.frames.push(vec![]);
        self.depth += 1;
        if self.depth >= 3 {
            self.events.insert("nesting_3");
        }
        if n >= 2 {
            self.events.insert("loop_ran_2plus");
        }
        for k in 0..n {
            self.step()?;
            self.set(var, k);
            if let Some(p) = self.path.last_mut() {
                p.1 = k;
                p.2 = n;
            }
            body(self)?;
        }
        self.depth -= 1;
        self.pop_frame();
        Ok(())
    }

    fn exec_one(&mut self, s: &Stmt) -> Result<(), Stop> {
        match s {
            Stmt::Row(es) => {
                let id = self.node_ids[&(s as *const Stmt)];
                self.do_row(id, es)
            }
            Stmt::Let(n, e) => {
                let v = match self.ev(e) {
                    Err(Stop::Err) if self.cont_rows => return Ok(()),
                    other => other?,
                };
                if self.depth > 0 {
                    self.events.insert("let_in_loop");
                }
                self.set(n, v);
                Ok(())
            }
            Stmt::Declare(..) => Ok(()),
            Stmt::ResetRandom => {
                self.env.reset_random();
                self.draws = 0;
                Ok(())
            }
            Stmt::Loop(v, e, body) => {
                let n = match self.ev(e) {
                    Err(Stop::Err) if self.cont_rows => return Ok(()),
                    other => other?,
                };
                self.bound_evals.push((s as *const Stmt as usize, n));
                if !matches!(e, Expr::Lit(..)) {
                    self.events.insert("loop_bound_computed");
                }
                self.run_loop(v, n, |me| me.exec(body))
            }
            Stmt::Repeat(e, es) => {
                let n = match self.ev(e) {
                    Err(Stop::Err) if self.cont_rows => return Ok(()),
                    other => other?,
                };
                self.bound_evals.push((s as *const Stmt as usize, n));
                let id = self.node_ids[&(s as *const Stmt)];
                self.events.insert("repeat");
                self.run_loop("n", n, |me| me.do_row(id, es))
            }
            Stmt::While(c, body) => {
                let mut iters = 0;
                loop {
                    self.step()?;
                    if let Some(p) = self.path.last_mut() {
                        // a while loop has no counter: its continuation does not depend on how
                        // often it has run
                        p.1 = 0;
                        p.2 = -1;
                    }
                    let v = self.ev(c)?;
                    if v == 0 {
                        break;
                    }
                    iters += 1;
                    if self.depth > 0 {
                        self.events.insert("while_in_loop");
                    }
                    self.depth += 0;
                    self.exec(body)?;
                }
                self.events.insert(match iters {
                    0 => "while_ran_0",
                    1 => "while_ran_1",
                    _ => "while_ran_2plus",
                });
                Ok(())
            }
        }
    }

    fn do_row(&mut self, node: usize, es: &[Entry]) -> Result<(), Stop> {
        // evaluate entries left to right
        let mut vals: Vec<EV> = vec![];
        for e in es {
            match e {
                Entry::Lit(n, _) => vals.push(EV::Num(*n)),
                Entry::X => vals.push(EV::X),
                Entry::Z => vals.push(EV::Z),
                Entry::C => vals.push(EV::C),
                Entry::Paren(x) => {
                    let v = match self.ev(x) {
                        Ok(v) => v,
                        Err(Stop::Err) if self.cont_rows => return Ok(()),
                        Err(e) => return Err(e),
                    };
                    vals.push(EV::Num(v));
                }
                Entry::Bits(k, x) => {
                    let v = match self.ev(x) {
                        Ok(v) => v,
                        Err(Stop::Err) if self.cont_rows => return Ok(()),
                        Err(e) => return Err(e),
                    };
                    self.events.insert("bits_row");
                    for n in (0..*k).rev() {
                        vals.push(EV::Num((v >> n) & 1));
                    }
                }
            }
        }
        assert_eq!(vals.len(), self.bound.input_col.len(), "row width must match the header");
        let vars = self.flat_vars();
        let xcols: Vec<usize> =
            (0..vals.len()).filter(|&c| vals[c] == EV::X && self.bound.input_col[c]).collect();
        let ccols: Vec<usize> =
            (0..vals.len()).filter(|&c| vals[c] == EV::C && self.bound.input_col[c]).collect();
        if !xcols.is_empty() {
            self.events.insert("x_expansion");
        }
        if !ccols.is_empty() {
            self.events.insert("c_expansion");
        }
        let mut sub = 0;
        for assignment in 0..(1u128 << xcols.len().min(127)) {
            let mut v = vals.clone();
            for (j, &c) in xcols.iter().enumerate() {
                v[c] = EV::Num(((assignment >> j) & 1) as i64);
            }
            if ccols.is_empty() {
                self.emit(node, &v, true, &vars, sub)?;
                sub += 1;
            } else {
                for (phase, clk) in [0i64, 1, 0].into_iter().enumerate() {
                    for &c in &ccols {
                        v[c] = EV::Num(clk);
                    }
                    self.emit(node, &v, phase == 2, &vars, sub)?;
                    sub += 1;
                }
            }
        }
        Ok(())
    }

    fn emit(&mut self, node: usize, v: &[EV], checked: bool, vars: &[(String, i64)], sub: usize) -> Result<(), Stop> {
        if self.rows_left == 0 {
            return Err(Stop::Fuel);
        }
        self.rows_left -= 1;
        let inputs: Vec<(String, V)> = self
            .bound
            .ins
            .iter()
            .map(|&(si, col)| {
                let s = &self.signals[si];
                let val = match col {
                    Some(c) => match v[c] {
                        EV::Num(n) => V::Num(mask(n, s.bits)),
                        EV::Z => V::Z,
                        EV::X | EV::C => unreachable!("expanded before"),
                    },
                    None => s.default().unwrap(),
                };
                (s.name.clone(), val)
            })
            .collect();
        self.calls += 1;
        if !checked {
            match self.env.w(&inputs) {
                EnvW::Ok => {}
                EnvW::Fault(id) => {
                    self.items.push(RefItem::DriverErr(id));
                    return if self.cont { Ok(()) } else { Err(Stop::Err) };
                }
                EnvW::Halt => {
                    self.calls -= 1;
                    self.halted_on_rw = Some(false);
                    self.make_key(sub);
                    return Err(Stop::Halt);
                }
            }
            self.items.push(RefItem::Row(RefRow { node, inputs, checked, outputs: vec![], vars: vars.to_vec() }));
            return Ok(());
        }
        let ans = match self.env.rw(&inputs) {
            EnvRw::Ans(a) => a,
            EnvRw::Fault(id) => {
                self.items.push(RefItem::DriverErr(id));
                return if self.cont { Ok(()) } else { Err(Stop::Err) };
            }
            EnvRw::Halt => {
                self.calls -= 1;
                self.halted_on_rw = Some(true);
                self.make_key(sub);
                return Err(Stop::Halt);
            }
        };
        self.latest = ans;
        let mut outputs = vec![];
        let outs = self.bound.outs.clone();
        for (r, col) in outs {
            let (name, bits, output) = match r {
                OutRef::Real(si) => {
                    let s = &self.signals[si];
                    let o = self.latest.iter().find(|(k, _)| k == &s.name).map(|(_, v)| *v).unwrap_or(V::X);
                    (s.name.clone(), s.bits, o)
                }
                OutRef::Virt(di) => {
                    let (n, e) = self.declares[di].clone();
                    match self.eval(&e, false) {
                        Ok(v) => (n, 64, V::Num(v)),
                        Err(Some(err)) => {
                            self.items.push(RefItem::VirtErr(err));
                            return if self.cont { Ok(()) } else { Err(Stop::Err) };
                        }
                        Err(None) => {
                            self.make_key(sub);
                            return Err(Stop::Halt);
                        }
                    }
                }
            };
            let expected = match col {
                Some(c) => match v[c] {
                    EV::Num(n) => V::Num(mask(n, bits)),
                    EV::Z => V::Z,
                    EV::X => V::X,
                    EV::C => unreachable!("C in a column that is not an input is rejected at binding"),
                },
                None => V::X,
            };
            outputs.push(RefOut { name, bits, output, expected });
        }
        self.items.push(RefItem::Row(RefRow { node, inputs, checked, outputs, vars: vars.to_vec() }));
        Ok(())
    }
}

/// Run the reference interpreter. The program must be accepted by `bind_judgement`.
pub fn run(p: &Program, signals: &[Sig], env: &mut dyn Env, fuel: Fuel) -> RefRun {
    run_opts(p, signals, env, fuel, false)
}

/// `cont`: carry on after an error item whose driver call was made (what a caller sees who
/// does not stop at the first error item).
pub fn run_opts(p: &Program, signals: &[Sig], env: &mut dyn Env, fuel: Fuel, cont: bool) -> RefRun {
    run_opts2(p, signals, env, fuel, cont, false)
}

/// `cont_rows`: also carry on after a statement whose expression could not be evaluated: the
/// statement (row, let, loop, repeat) yields one error item and is skipped. A failing while
/// condition still ends the run (it would fail again for ever).
pub fn run_opts2(p: &Program, signals: &[Sig], env: &mut dyn Env, fuel: Fuel, cont: bool, cont_rows: bool) -> RefRun {
    let declares = p.declares();
    let bound = bind(&p.header, signals, &declares);
    let init_inputs: Vec<(String, V)> =
        bound.ins.iter().map(|&(si, _)| (signals[si].name.clone(), signals[si].default().unwrap())).collect();
    let mut node_ids = HashMap::new();
    let mut next = 0;
    number_rows(&p.body, &mut next, &mut node_ids);
    let mut run = RefRun {
        init_inputs: init_inputs.clone(),
        init: RefInit::Ok,
        items: vec![],
        end: RefEnd::Done,
        key: String::new(),
        halted_on_rw: None,
        events: BTreeSet::new(),
        calls: 1,
        bound_evals: vec![],
    };
    let latest = match env.rw(&init_inputs) {
        EnvRw::Ans(a) => a,
        EnvRw::Fault(id) => {
            run.init = RefInit::Driver(id);
            run.end = RefEnd::Stopped;
            return run;
        }
        EnvRw::Halt => {
            run.init = RefInit::Halt;
            run.end = RefEnd::Halt;
            run.halted_on_rw = Some(true);
            run.calls = 0;
            run.key = "init".into();
            return run;
        }
    };
    let missing: Vec<String> =
        static_reads(p).into_iter().filter(|n| !latest.iter().any(|(k, _)| k == n)).collect();
    if !missing.is_empty() {
        run.init = RefInit::MissingOutputs(missing);
        run.end = RefEnd::Stopped;
        return run;
    }
    let mut it = Interp {
        signals,
        bound,
        declares,
        env,
        frames: vec![vec![]],
        latest,
        items: vec![],
        steps_left: fuel.steps,
        rows_left: fuel.rows,
        path: vec![],
        key: String::new(),
        halted_on_rw: None,
        events: BTreeSet::new(),
        node_ids,
        calls: 1,
        draws: 0,
        depth: 0,
        cont,
        cont_rows,
        lexical: lexical_names(p),
        bound_evals: vec![],
    };
    let r = it.exec(&p.body);
    run.end = match r {
        Ok(()) => RefEnd::Done,
        Err(Stop::Halt) => RefEnd::Halt,
        Err(Stop::Err) => RefEnd::Stopped,
        Err(Stop::Fuel) => RefEnd::Fuel,
    };
    if run.end == RefEnd::Done {
        it.key = format!("done latest={:?}", it.latest);
    }
    run.items = it.items;
    run.key = it.key;
    run.halted_on_rw = it.halted_on_rw;
    run.events = it.events;
    run.calls = it.calls;
    run.bound_evals = it.bound_evals;
    run
}

/// Environment that answers every output-reading call with the same answer.
pub struct ConstEnv {
    pub answer: Answer,
}
impl Env for ConstEnv {
    fn rw(&mut self, _: &[(String, V)]) -> EnvRw {
        EnvRw::Ans(self.answer.clone())
    }
    fn w(&mut self, _: &[(String, V)]) -> EnvW {
        EnvW::Ok
    }
}

/// Environment backed by a per-call script (the same script the subject's driver consumes).
pub struct ScriptEnv<'a> {
    pub script: &'a [crate::driver::Step],
    pub pos: usize,
    pub draws: &'a [i64],
    pub draw_pos: usize,
    pub draw_marks: Vec<usize>,
    pub repeat_last: bool,
    /// bound of every draw the reference asked for
    pub bounds_seen: Vec<i64>,
}
impl<'a> ScriptEnv<'a> {
    pub fn new(script: &'a [crate::driver::Step]) -> Self {
        ScriptEnv { script, pos: 0, draws: &[], draw_pos: 0, draw_marks: vec![], repeat_last: false, bounds_seen: vec![] }
    }
    fn step(&mut self) -> Option<&'a crate::driver::Step> {
        let s = match self.script.get(self.pos) {
            Some(s) => Some(s),
            None if self.repeat_last => self.script.last(),
            None => None,
        };
        if s.is_some() {
            self.pos += 1;
        }
        s
    }
}
impl<'a> Env for ScriptEnv<'a> {
    fn rw(&mut self, _: &[(String, V)]) -> EnvRw {
        let Some(s) = self.step() else { return EnvRw::Halt };
        match s {
            crate::driver::Step::Ans(a) => EnvRw::Ans(a.clone()),
            crate::driver::Step::Fault(id) => EnvRw::Fault(*id),
        }
    }
    fn w(&mut self, _: &[(String, V)]) -> EnvW {
        let Some(s) = self.step() else { return EnvW::Halt };
        match s {
            crate::driver::Step::Ans(_) => EnvW::Ok,
            crate::driver::Step::Fault(id) => EnvW::Fault(*id),
        }
    }
    fn draw(&mut self, bound: i64) -> Option<i64> {
        self.bounds_seen.push(bound);
        let v = self.draws.get(self.draw_pos).copied();
        self.draw_pos += 1;
        v
    }
    fn reset_random(&mut self) {
        self.draw_marks.push(self.draw_pos);
    }
}
