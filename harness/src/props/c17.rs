//! C17 — random(n) stays in range, draws once per evaluation, resetRandom replays
//! (DESIGN §6/C17). Uses the seed override (H1) and the draw log (H2).

use crate::compare::*;
use crate::driver::*;
use crate::engine::*;
use crate::model::*;
use crate::props::util::*;
use crate::refsem::*;
use crate::space::*;
use crate::subject::*;
use digital_test_runner::verif_hooks::DrawEvent;
use serde_json::json;
use std::time::Instant;

fn sigs() -> Vec<Sig> {
    vec![Sig::inp("A", 8, 0), Sig::inp("B", 8, 0), Sig::out("a", 8), Sig::out("Q", 64)]
}

fn space(b: Expr, k: usize) -> ForestSpace {
    let l = |n: i64| Entry::Lit(n, Radix::Dec);
    let r = || random(b.clone());
    let p = |e: Expr| Entry::Paren(e);
    let atoms = vec![
        Stmt::Row(vec![l(0), l(0), p(r())]),
        Stmt::Row(vec![p(r()), p(r()), l(0)]),
        Stmt::Row(vec![Entry::Bits(2, r()), l(0)]),
        Stmt::Row(vec![p(bin(BinOp::And, lit(0), r())), p(bin(BinOp::Mul, r(), lit(0))), p(bin(BinOp::Or, lit(1), r()))]),
        Stmt::Row(vec![l(0), l(0), p(ite(lit(1), r(), bin(BinOp::Add, r(), lit(1))))]),
        Stmt::Row(vec![Entry::X, l(0), p(ite(lit(0), r(), lit(7)))]),
        Stmt::Row(vec![Entry::C, l(1), p(name("a"))]),
        Stmt::Row(vec![p(bin(BinOp::Div, r(), random(lit(3)))), p(bin(BinOp::Rem, random(lit(3)), r())), l(0)]),
        Stmt::Row(vec![l(0), p(bin(BinOp::Lt, random(lit(3)), r())), p(bin(BinOp::Sub, r(), bin(BinOp::Mul, random(lit(3)), random(lit(10)))))]),
        Stmt::Let("a".into(), r()),
        Stmt::Let("a".into(), bin(BinOp::Add, name("a"), r())),
        Stmt::Repeat(random(lit(3)), vec![l(0), l(0), p(name("n"))]),
        Stmt::ResetRandom,
        Stmt::Declare("W".into(), r()),
        // a draw next to bracketed literal sub-expressions (nothing about such an entry is constant)
        Stmt::Row(vec![p(bin(BinOp::Add, r(), group(bin(BinOp::Shl, lit(1), lit(4))))), p(bin(BinOp::Mul, r(), un(UnOp::Neg, group(lit(2))))), p(bin(BinOp::Sub, group(lit(0)), r()))]),
        // a draw in the condition of an ite whose two branches are the same expression
        Stmt::Row(vec![p(ite(r(), lit(5), lit(5))), l(0), p(ite(random(lit(3)), r(), r()))]),
        // an empty range: an error item; the caller carries on and later draws continue the stream
        Stmt::Row(vec![p(r()), p(random(lit(0))), l(0)]),
    ];
    let blocks = vec![Block::Loop("i".into(), lit(2)), Block::Loop("i".into(), random(lit(3))), Block::While(bin(BinOp::Lt, random(lit(3)), lit(2)))];
    ForestSpace::new(atoms, blocks, 2, k)
}

thread_local! {
    static STREAMS: std::cell::RefCell<std::collections::HashMap<(u64, Vec<i64>), Vec<i64>>> = std::cell::RefCell::new(std::collections::HashMap::new());
}

/// Values drawn by `let x = random(b1); let x = random(b2); ...` under `seed` (cached per thread)
fn straight_line_stream(sigs: &[Sig], script: &[Step], seed: u64, bounds: &[i64]) -> Vec<i64> {
    let key = (seed, bounds.to_vec());
    if let Some(v) = STREAMS.with(|m| m.borrow().get(&key).cloned()) {
        return v;
    }
    let mut body = vec![Stmt::Declare("V".into(), lit(0))];
    for b in bounds {
        body.push(Stmt::Let("x".into(), random(lit(*b))));
    }
    body.push(Stmt::Row(vec![Entry::Lit(0, Radix::Dec), Entry::Lit(0, Radix::Dec), Entry::Lit(0, Radix::Dec)]));
    let prog = Program { header: vec!["A".into(), "B".into(), "V".into()], body };
    let mut opts = RunOpts::new(2);
    opts.repeat_last = true;
    opts.seed = seed;
    let obs = run_dynamic(&text(&prog), sigs, true, script, &opts);
    let v: Vec<i64> = obs.draws.iter().filter_map(|d| if let DrawEvent::Draw { value, .. } = d { Some(*value) } else { None }).collect();
    STREAMS.with(|m| {
        let mut m = m.borrow_mut();
        if m.len() > 200_000 {
            m.clear();
        }
        m.insert(key, v.clone());
    });
    v
}

/// Rule (iii) on a draw log alone: after every reset the draws repeat, for the same bounds, the
/// values drawn from the start of the run.
fn reset_replays(draws: &[DrawEvent]) -> Option<String> {
    let mut stream: Vec<(i64, i64)> = vec![];
    let mut j = 0usize;
    let mut diverged = false;
    let mut resets = 0;
    for d in draws {
        match d {
            DrawEvent::Reset => {
                j = 0;
                diverged = false;
                resets += 1;
            }
            DrawEvent::Draw { bound, value, .. } => {
                if !(0 <= *value && value < bound) {
                    return Some(format!("random({bound}) drew {value}"));
                }
                if !diverged {
                    if j < stream.len() {
                        if stream[j].0 != *bound {
                            diverged = true;
                        } else if stream[j].1 != *value {
                            return Some(format!("replay: draw {j} after reset number {resets} is {value} but draw {j} from the start of the run was {} (bound {bound})", stream[j].1));
                        }
                    } else {
                        stream.push((*bound, *value));
                    }
                }
                j += 1;
            }
        }
    }
    None
}

fn bounds() -> Vec<(String, Expr)> {
    vec![
        ("2".into(), lit(2)),
        ("3".into(), lit(3)),
        ("10".into(), lit(10)),
        ("2^31".into(), lit(1 << 31)),
        ("2^32+1".into(), lit((1 << 32) + 1)),
        ("2^62".into(), Expr::Lit(1 << 62, Radix::Hex)),
        ("a+2 (device value 5)".into(), bin(BinOp::Add, name("a"), lit(2))),
    ]
}

pub fn run(tier: Tier, seed: u64) -> i32 {
    let started = Instant::now();
    let deadline = Deadline::new(tier.wall_cap());
    let sigs = sigs();
    let answer: Answer = vec![("a".into(), V::Num(5)), ("Q".into(), V::Num(9))];
    let script = vec![Step::Ans(answer.clone())];
    let script_x = vec![Step::Ans(answer), Step::Ans(vec![("a".into(), V::X), ("Q".into(), V::Num(9))])];
    let mut seeds: Vec<u64> = vec![0, 1, 2, 3, 42, 1 << 32, u64::MAX];
    for k in 0..4 {
        seeds.push(seed.wrapping_mul(0x9E37_79B9_7F4A_7C15).wrapping_add(1000 + k));
    }
    let bounds = bounds();
    let maxk = tier.pick(3, 4);
    let mut total = Stats::default();
    for (bi, (bname, bexpr)) in bounds.iter().enumerate() {
        for k in 1..=maxk {
            if k == 4 && bi > 2 {
                continue;
            }
            let sp = space(bexpr.clone(), k);
            let n = sp.count(k);
            let label = format!("programs with {k} statements (random in row entries, bits, let, loop/repeat bound, while condition, declaration, ite branches, dead operands; resetRandom anywhere), bound {bname}, x {} seeds", seeds.len());
            let st = par_range(&label, n, &deadline, |idx, st| {
                let body = sp.unrank(k, idx);
                // at least one random somewhere
                let prog = Program { header: vec!["A".into(), "B".into(), "V".into()], body: {
                    let mut b = vec![Stmt::Declare("V".into(), lit(0))];
                    b.extend(body);
                    b
                } };
                if prog.declares().len() > 2 {
                    return; // W declared twice is not a valid program
                }
                let text = text(&prog);
                let tc = load(&text, &sigs, DEFAULT_BUDGET);
                for (si, &sd) in seeds.iter().enumerate() {
                    // under the fourth seed the device reports the output `a` as unknown (X) from the
                    // second call on: reading it is an error item (no draw), the caller carries on
                    let script = if si == 3 { &script_x } else { &script };
                    if si == 3 {
                        st.witness("device_reports_X_for_an_output_next_to_draws");
                    }
                    st.evals += 1;
                    let mut opts = RunOpts::new(64);
                    opts.repeat_last = true;
                    opts.seed = sd;
                    opts.budget = 20_000;
                    opts.continue_after_error = true;
                    let obs = match &tc {
                        Ok(tc) => run_loaded(tc, &sigs, true, &script, &opts),
                        Err(i) => not_loaded(i),
                    };
                    let order = (k as u64) << 56 | (bi as u64) << 50 | idx << 8 | si as u64;
                    let fail = |st: &mut Stats, class: &str, m: String, exp: Vec<String>| {
                        let summary = format!("seed {sd}, bound {bname}\nprogram:\n{text}draw log: {:?}\n{m}", obs.draws);
                        st.violation(class, order, summary, || dyn_replay(&text, &sigs, true, &script, &opts, exp, &obs, &m));
                    };
                    // a while(random(3) < 2) loop may legitimately run long: bounded by rows and steps
                    if obs.items.len() >= 64 || obs.items.iter().any(|i| *i == ObsItem::Watchdog) {
                        st.out_of_scope += 1;
                        continue;
                    }
                    let values: Vec<i64> = obs.draws.iter().filter_map(|d| if let DrawEvent::Draw { value, .. } = d { Some(*value) } else { None }).collect();
                    let log_bounds: Vec<i64> = obs.draws.iter().filter_map(|d| if let DrawEvent::Draw { bound, .. } = d { Some(*bound) } else { None }).collect();
                    // (i) range
                    if let Some(DrawEvent::Draw { bound, value, .. }) = obs.draws.iter().find(|d| matches!(d, DrawEvent::Draw { bound, value, .. } if !(0 <= *value && value < bound))) {
                        fail(st, "draw out of range", format!("random({bound}) drew {value}"), vec!["0 <= r < n".into()]);
                        continue;
                    }
                    // every draw of a run comes from the run's one generator
                    let gens: Vec<usize> = obs.draws.iter().filter_map(|d| if let DrawEvent::Draw { generator, .. } = d { Some(*generator) } else { None }).collect();
                    if let Some(pos) = gens.iter().position(|g| *g != gens[0]) {
                        fail(st, "draw from another generator", format!("generator: draw number {pos} was taken from a different generator object than the first draw of the run (a copy of the generator does not advance the run's generator)"), vec!["all draws from the run's generator".into()]);
                        continue;
                    }
                    // (ii) the reference fed the logged values reproduces the run and consumes the log exactly
                    let mut env = ScriptEnv::new(&script);
                    env.repeat_last = true;
                    env.draws = &values;
                    let r = crate::refsem::run_opts2(&prog, &sigs, &mut env, Fuel { steps: 3000, rows: 70 }, true, true);
                    let (draw_pos, marks, rb) = (env.draw_pos, env.draw_marks.clone(), env.bounds_seen.clone());
                    let first_error = r.items.iter().position(|i| matches!(i, RefItem::ExprErr(_)));
                    if first_error.is_some() {
                        st.witness("caller_carries_on_after_an_empty_range_error");
                    }
                    if r.end == RefEnd::Fuel {
                        st.out_of_scope += 1;
                        continue;
                    }
                    st.steps += obs.items.len() as u64;
                    if !values.is_empty() {
                        st.nontrivial += 1;
                        st.witness("run_with_draws");
                    }
                    if marks.iter().any(|m| *m > 0 && *m < values.len()) {
                        st.witness("reset_between_draws");
                    }
                    if r.end == RefEnd::Halt {
                        let m = format!("draw count: the program needs draw number {} (random({})) but the run logged only {} draws", draw_pos, rb.last().copied().unwrap_or(0), values.len());
                        fail(st, "fewer draws than evaluations", m, ref_items_brief(&r));
                        continue;
                    }
                    let proj = Proj { input_values: true, expected: true, output: true, checked_kind: true, lines: false, vars: false, verdicts: false };
                    let mm = run_mismatch(&r, &obs, proj, None);
                    // what follows an error item is only compared if rows are yielded at all
                    if let (Some((k, _)), Some(fe)) = (&mm, first_error) {
                        if *k > fe && !obs.items.get(*k).map(|i| i.is_row()).unwrap_or(false) {
                            st.out_of_scope += 1;
                            continue;
                        }
                    }
                    if let Some((_, m)) = mm {
                        fail(st, &format!("rows differ from the literal program ({})", classify(&m)), format!("with the drawn values written as literals the reference gives a different run: {m}"), ref_items_brief(&r));
                        continue;
                    }
                    if draw_pos != values.len() {
                        fail(st, "more draws than evaluations", format!("draw count: the run logged {} draws but only {} random(..) evaluations happen", values.len(), draw_pos), ref_items_brief(&r));
                        continue;
                    }
                    if rb != log_bounds {
                        fail(st, "draw bound differs", format!("bounds: evaluations have bounds {rb:?}, the log has {log_bounds:?}"), vec![]);
                        continue;
                    }
                    let log_marks: Vec<usize> = {
                        let mut v = vec![];
                        let mut n = 0;
                        for d in &obs.draws {
                            match d {
                                DrawEvent::Draw { .. } => n += 1,
                                DrawEvent::Reset => v.push(n),
                            }
                        }
                        v
                    };
                    if log_marks != marks {
                        fail(st, "resetRandom position differs", format!("resets: expected after draws {marks:?}, logged after {log_marks:?}"), vec![]);
                        continue;
                    }
                    // (iii) after each reset the stream restarts: all segments are prefixes of one stream
                    let mut stream: Vec<(i64, i64)> = vec![];
                    let mut seg_start = 0;
                    let mut cuts = marks.clone();
                    cuts.push(values.len());
                    let mut bad = None;
                    for (sgi, &end) in cuts.iter().enumerate() {
                        let mut diverged = false;
                        for (j, pos) in (seg_start..end).enumerate() {
                            let cur = (log_bounds[pos], values[pos]);
                            if diverged {
                                break;
                            }
                            if j < stream.len() {
                                if stream[j].0 != cur.0 {
                                    diverged = true;
                                } else if stream[j].1 != cur.1 {
                                    bad = Some(format!("replay: draw {j} after reset number {sgi} is {} but draw {j} of the stream from the start of the run was {} (bound {})", cur.1, stream[j].1, cur.0));
                                    break;
                                } else if sgi > 0 {
                                    st.witness("draw_replayed_after_reset");
                                }
                            } else {
                                stream.push(cur);
                            }
                        }
                        seg_start = end;
                        if bad.is_some() {
                            break;
                        }
                    }
                    if let Some(m) = bad {
                        fail(st, "resetRandom does not replay", m, vec![]);
                        continue;
                    }
                    // (v) the k-th evaluation gets the k-th value of the generator's stream: the same bounds
                    // drawn by a straight-line program (let x = random(b1); let x = random(b2); ...)
                    // under the same seed give the same values
                    if !stream.is_empty() {
                        let sb: Vec<i64> = stream.iter().map(|x| x.0).collect();
                        let want = straight_line_stream(&sigs, &script, sd, &sb);
                        let got: Vec<i64> = stream.iter().map(|x| x.1).collect();
                        st.witness("stream_compared_with_a_straight_line_program");
                        if want != got {
                            let pos = want.iter().zip(got.iter()).position(|(a, b)| a != b).unwrap_or(want.len().min(got.len()));
                            fail(st, "draws are not the generator's stream", format!("stream: draw {pos} (bound {}) is {:?}; a straight-line program drawing with the same bounds under the same seed gets {:?} there: the generator was restarted, copied or advanced by something other than an evaluation of random", sb.get(pos).copied().unwrap_or(0), got.get(pos), want.get(pos)), vec![]);
                            continue;
                        }
                    }
                    // (vi) the read-only methods of the iterator (size_hint, vars) do not draw
                    if si == 1 {
                        let mut o2 = opts.clone();
                        o2.poke = true;
                        let obs2 = match &tc {
                            Ok(tc) => run_loaded(tc, &sigs, true, &script, &o2),
                            Err(i) => not_loaded(i),
                        };
                        st.witness("size_hint_and_vars_called_between_the_rows");
                        if obs2.draws != obs.draws || obs2.items != obs.items {
                            fail(st, "size_hint()/vars() change the run", "calling size_hint() and vars() before every next() changes the draws or the rows of the run".into(), vec![]);
                            continue;
                        }
                    }
                    // (vii) the production path: the seed is the subject's own (from the OS); range and
                    // replay after resetRandom hold all the same
                    if si == 2 {
                        let mut o3 = opts.clone();
                        o3.no_seed_override = true;
                        let obs3 = match &tc {
                            Ok(tc) => run_loaded(tc, &sigs, true, &script, &o3),
                            Err(i) => not_loaded(i),
                        };
                        st.witness("run_with_the_subjects_own_seed");
                        if let Some(m) = reset_replays(&obs3.draws) {
                            let summary = format!("seed left to the subject (production path)\nprogram:\n{text}draw log: {:?}\n{m}", obs3.draws);
                            st.violation("resetRandom does not replay (own seed)", order, summary, || json!({"kind": "none", "text": text, "note": "the run used a seed from the OS and cannot be repeated value by value; run the program with resetRandom and compare the draws before and after it", "expected": ["after resetRandom the draws repeat those from the start of the run"], "observed": [m.clone()]}));
                            continue;
                        }
                    }
                    // (iv) same seed, same log
                    if si == 0 {
                        let obs2 = match &tc {
                            Ok(tc) => run_loaded(tc, &sigs, true, &script, &opts),
                            Err(i) => not_loaded(i),
                        };
                        if obs2.draws != obs.draws || obs2.items != obs.items {
                            fail(st, "same seed, different run", "two runs with the same seed differ".into(), vec![]);
                        }
                        st.witness("same_seed_rerun");
                    }
                    st.outcome(&(values.len(), marks.len()));
                    if values.len() >= 4 && !marks.is_empty() && idx % 97 == 3 && si == 1 {
                        st.sample(|| json!({"program": text, "seed": sd, "draw_log": format!("{:?}", obs.draws)}));
                    }
                }
            });
            total.merge(st);
        }
    }
    // far beyond the enumerated scope: exactly 255 / 256 / 257 / 512 / 1024 / 65536 draws between the start of
    // the run and a resetRandom: the draws after it repeat those from the start
    for total_draws in [255usize, 256, 257, 512, 1024, 65_536] {
        let l = |n: i64| Entry::Lit(n, Radix::Dec);
        let r40 = || random(Expr::Lit(1 << 40, Radix::Hex));
        let body = vec![
            Stmt::Declare("V".into(), lit(0)),
            Stmt::Row(vec![Entry::Paren(r40()), Entry::Paren(r40()), l(0)]),
            Stmt::Loop("i".into(), lit(total_draws as i64 - 2), vec![Stmt::Let("x".into(), r40())]),
            Stmt::ResetRandom,
            Stmt::Row(vec![Entry::Paren(r40()), Entry::Paren(r40()), l(0)]),
        ];
        let prog = Program { header: vec!["A".into(), "B".into(), "V".into()], body };
        let text = text(&prog);
        let mut opts = RunOpts::new(4);
        opts.repeat_last = true;
        opts.seed = seeds[1];
        opts.budget = 50_000_000;
        let obs = run_dynamic(&text, &sigs, true, &script, &opts);
        total.evals += 1;
        total.nontrivial += 1;
        total.witness("reset_after_a_multiple_of_256_draws");
        let ndraws = obs.draws.iter().filter(|d| matches!(d, DrawEvent::Draw { .. })).count();
        let m = if ndraws != total_draws + 2 { Some(format!("draw count: {} draws logged, {} evaluations of random happen", ndraws, total_draws + 2)) } else { reset_replays(&obs.draws) };
        let rows: Vec<&ObsItem> = obs.items.iter().filter(|i| i.is_row()).collect();
        let ins = |i: &ObsItem| if let ObsItem::Row(r) = i { r.inputs.iter().map(|x| x.1).collect::<Vec<_>>() } else { vec![] };
        let m = m.or_else(|| if rows.len() == 2 && ins(rows[0]) != ins(rows[1]) { Some("replay: the row after resetRandom differs from the first row of the run".to_string()) } else { None });
        if let Some(m) = m {
            total.violation("resetRandom does not replay (large scale)", (3 << 60) + total_draws as u64, format!("{total_draws} draws, resetRandom, two more draws (seed {})\nprogram:\n{text}{m}", opts.seed), || dyn_replay(&text, &sigs, true, &script, &opts, vec!["the last row equals the first".into()], &obs, &m));
        }
    }
    // far beyond the enumerated scope: hundreds of draws, a reset every 64 rows
    {
        let l = |n: i64| Entry::Lit(n, Radix::Dec);
        let r62 = || random(Expr::Lit(1 << 62, Radix::Hex));
        let body = vec![
            Stmt::Declare("V".into(), lit(0)),
            Stmt::Loop("i".into(), lit(6), vec![Stmt::Repeat(lit(64), vec![Entry::Paren(random(lit(200))), l(0), Entry::Paren(r62())]), Stmt::ResetRandom, Stmt::Let("a".into(), bin(BinOp::Add, r62(), random(lit(3))))]),
        ];
        let prog = Program { header: vec!["A".into(), "B".into(), "V".into()], body };
        let text = text(&prog);
        for &sd in &seeds[..4] {
            let mut opts = RunOpts::new(400);
            opts.repeat_last = true;
            opts.seed = sd;
            opts.budget = 5_000_000;
            let obs = run_dynamic(&text, &sigs, true, &script, &opts);
            let values: Vec<i64> = obs.draws.iter().filter_map(|d| if let DrawEvent::Draw { value, .. } = d { Some(*value) } else { None }).collect();
            let bounds_log: Vec<i64> = obs.draws.iter().filter_map(|d| if let DrawEvent::Draw { bound, .. } = d { Some(*bound) } else { None }).collect();
            let mut env = ScriptEnv::new(&script);
            env.repeat_last = true;
            env.draws = &values;
            let r = crate::refsem::run(&prog, &sigs, &mut env, Fuel { steps: 100_000, rows: 1000 });
            total.evals += 1;
            total.nontrivial += 1;
            total.witness("hundreds_of_draws_and_repeated_resets");
            let proj = Proj { input_values: true, expected: true, output: true, checked_kind: true, lines: false, vars: false, verdicts: false };
            let mut m = run_mismatch(&r, &obs, proj, None).map(|x| x.1);
            if m.is_none() && (env.draw_pos != values.len() || env.bounds_seen != bounds_log) {
                m = Some(format!("draw count: {} evaluations, {} logged draws (or bounds differ)", env.draw_pos, values.len()));
            }
            // after every reset the same 130 draws follow (2 of the let, 128 of the next 64 rows,
            // same bounds): segments 2.. repeat segment 1; its first two draws (bounds 2^62, 3) also
            // restart the stream that the run began with (the very first draw had another bound)
            if m.is_none() {
                let per: usize = 64 * 2 + 2;
                let first = 128;
                for seg in 2..6 {
                    let start = first + (seg - 1) * per;
                    let len = per.min(values.len().saturating_sub(start));
                    if values.len() >= start && values[start..start + len] != values[first..first + len] {
                        m = Some(format!("replay: the draws after reset number {seg} do not repeat the draws after reset number 1"));
                        break;
                    }
                }
            }
            if let Some(m) = m {
                total.violation("large scale: long run with resets", 1 << 60, format!("seed {sd}\n{text}{m}"), || dyn_replay(&text, &sigs, true, &script, &opts, vec![], &obs, &m));
            }
        }
    }
    let meta = CheckMeta {
        id: "C17",
        tier,
        seed,
        rule: "every program of the space x every bound of the menu x every seed; the draw log of the run is checked for range, fed to the reference interpreter as its draw stream (which must reproduce every row and consume the log exactly, with equal bounds and reset positions), checked for replay after every resetRandom, and for equality between two runs with the same seed; non-trivial = the run draws at least once".into(),
        assumptions: vec![
            "hooks H1 (seed override) and H2 (draw log: one entry per call of the generator from random()) are the observation".into(),
            "bounds and seeds are fixed boundary sets (2, 3, 10, 2^31, 2^32+1, 2^62, a device-computed bound; 7 fixed seeds + 4 derived from VERIF_SEED); DESIGN section 10".into(),
            "runs longer than 64 rows (while(random(3)<2) under an unlucky seed) are out of scope".into(),
        ],
        required_witnesses: vec!["hundreds_of_draws_and_repeated_resets", "reset_after_a_multiple_of_256_draws", "run_with_draws", "reset_between_draws", "draw_replayed_after_reset", "same_seed_rerun", "stream_compared_with_a_straight_line_program", "size_hint_and_vars_called_between_the_rows", "caller_carries_on_after_an_empty_range_error", "run_with_the_subjects_own_seed"],
        exhaustive_note: "all programs x bounds x seeds within the bounds".into(),
        e1: false,
    };
    total.merge(crate::props::c13::api_use_part(&deadline));
    finish(meta, total, started)
}
