//! C05 — clock (C) and don't-care (X) expansion (DESIGN §6/C05).
//! Every row shape over a per-column entry menu, at loop depth 0/1/2 and as a repeat row,
//! for several header/signal-list configurations, against the reference expansion.

use crate::compare::*;
use crate::driver::*;
use crate::engine::*;
use crate::model::*;
use crate::props::util::*;
use crate::refsem::*;
use crate::space::mentions;
use crate::subject::*;
use serde_json::json;
use std::time::Instant;

struct Config {
    name: &'static str,
    sigs: Vec<Sig>,
    header: Vec<String>,
    /// entry menu per header column
    menus: Vec<Vec<Entry>>,
    /// adjacent column pairs that are additionally written as bits(2,k)
    bits_pairs: Vec<usize>,
    answer: Answer,
    /// plain final row
    last: Vec<Entry>,
}

fn k() -> Expr {
    name("k")
}
fn one_bit_in() -> Vec<Entry> {
    vec![Entry::Lit(0, Radix::Dec), Entry::Lit(1, Radix::Dec), Entry::X, Entry::C, Entry::Z, Entry::Paren(k())]
}
fn wide_in() -> Vec<Entry> {
    vec![Entry::Lit(5, Radix::Dec), Entry::X, Entry::C, Entry::Paren(bin(BinOp::Add, k(), lit(1))), Entry::Z]
}
fn exp() -> Vec<Entry> {
    vec![Entry::X, Entry::Z, Entry::Lit(2, Radix::Dec), Entry::Paren(k())]
}
fn l(n: i64) -> Entry {
    Entry::Lit(n, Radix::Dec)
}

fn configs(tier: Tier) -> Vec<Config> {
    let base = vec![Sig::inp("CLK", 1, 0), Sig::inp("A", 1, 0), Sig::inp("B", 1, 1), Sig::inp("W", 4, 3), Sig::out("Q", 4)];
    let mut v = vec![
        Config {
            name: "i: header in signal-list order",
            sigs: base.clone(),
            header: vec!["CLK".to_string(), "A".to_string(), "B".to_string(), "W".to_string(), "Q".to_string()],
            menus: vec![one_bit_in(), one_bit_in(), one_bit_in(), wide_in(), exp()],
            bits_pairs: vec![0, 1],
            answer: vec![("Q".into(), V::Num(5))],
            last: vec![l(1), l(0), l(1), l(2), l(7)],
        },
        Config {
            name: "ii: header permuted, one input omitted, signal list in another order",
            sigs: vec![base[4].clone(), base[0].clone(), base[2].clone(), base[1].clone(), base[3].clone()],
            header: vec!["W".to_string(), "Q".to_string(), "A".to_string(), "CLK".to_string()],
            menus: vec![wide_in(), exp(), one_bit_in(), one_bit_in()],
            bits_pairs: vec![2],
            answer: vec![("Q".into(), V::Num(5))],
            last: vec![l(2), l(7), l(0), l(1)],
        },
        Config {
            name: "iii: bidirectional signal with split columns",
            sigs: vec![Sig::bidir("D", 1, V::Z), Sig::inp("CK2", 1, 0), Sig::out("Q", 4), Sig::inp("A", 1, 0)],
            header: vec!["Q".to_string(), "A".to_string(), "D".to_string(), "D_out".to_string(), "CK2".to_string()],
            menus: vec![exp(), one_bit_in(), one_bit_in(), vec![Entry::X, Entry::Z, l(1), Entry::Paren(k())], one_bit_in()],
            bits_pairs: vec![1],
            answer: vec![("D".into(), V::Num(1)), ("Q".into(), V::Num(5))],
            last: vec![l(7), l(0), l(1), l(1), l(1)],
        },
    ];
    {
        v.push(Config {
            name: "iv: two clocks, four one-bit inputs, wide input as clock, two outputs",
            sigs: vec![
                Sig::inp("C1", 1, 0),
                Sig::out("R", 4),
                Sig::inp("C2", 1, 0),
                Sig::inp("A", 1, 0),
                Sig::inp("B", 1, 0),
                Sig::inp("W", 4, 3),
                Sig::out("Q", 4),
            ],
            header: vec!["C1".to_string(), "C2".to_string(), "A".to_string(), "B".to_string(), "W".to_string(), "Q".to_string(), "R".to_string()],
            menus: vec![one_bit_in(), one_bit_in(), one_bit_in(), one_bit_in(), wide_in(), exp(), exp()],
            bits_pairs: vec![0, 2],
            answer: vec![("R".into(), V::Num(9)), ("Q".into(), V::Num(5))],
            last: vec![l(1), l(0), l(1), l(0), l(2), l(7), l(9)],
        });
    }
    {
        // more than 64 columns: 64 one-bit inputs, then an expected column, an input, an expected column
        let mut sigs: Vec<Sig> = (0..64).map(|i| Sig::inp(&format!("I{i}"), 1, 0)).collect();
        sigs.insert(10, Sig::out("Q", 4));
        sigs.push(Sig::inp("J", 1, 1));
        sigs.push(Sig::out("R", 4));
        let mut header: Vec<String> = (0..64).map(|i| format!("I{i}")).collect();
        header.extend(["Q".to_string(), "J".to_string(), "R".to_string()]);
        let mut menus: Vec<Vec<Entry>> = (0..64).map(|i| if i == 0 || i == 2 { one_bit_in() } else { vec![l(0)] }).collect();
        menus.extend([exp(), one_bit_in(), exp()]);
        let mut last: Vec<Entry> = (0..64).map(|_| l(1)).collect();
        last.extend([l(7), l(0), l(9)]);
        v.push(Config { name: "vi: 67 columns (column 64+j must not be confused with column j)", sigs, header, menus, bits_pairs: vec![], answer: vec![("Q".into(), V::Num(5)), ("R".into(), V::Num(9))], last });
    }
    {
        // 67 columns again, the other way round: expected columns at indices 0 and 2, inputs at 64 and 66
        let mut sigs: Vec<Sig> = vec![Sig::out("Q", 4), Sig::inp("I1", 1, 0), Sig::out("R", 4)];
        sigs.extend((3..67).map(|i| Sig::inp(&format!("I{i}"), 1, 0)));
        let header: Vec<String> = sigs.iter().map(|s| s.name.clone()).collect();
        let menus: Vec<Vec<Entry>> = (0..67).map(|i| match i { 0 | 2 => exp(), 1 | 64 | 66 => one_bit_in(), _ => vec![l(0)] }).collect();
        let last: Vec<Entry> = (0..67).map(|i| match i { 0 => l(7), 2 => l(9), _ => l(1) }).collect();
        v.push(Config { name: "viii: 67 columns, expected columns 0 and 2, inputs up to column 66 (column j must not be confused with column 64+j)", sigs, header, menus, bits_pairs: vec![], answer: vec![("Q".into(), V::Num(5)), ("R".into(), V::Num(9))], last });
    }
    v.push(Config {
        name: "vii: column D_out drives the input D_out and is the expected column of bidirectional D",
        sigs: vec![Sig::bidir("D", 1, V::Z), Sig::inp("D_out", 1, 0), Sig::inp("CLK", 1, 0), Sig::out("Q", 4)],
        header: vec!["D".to_string(), "D_out".to_string(), "CLK".to_string(), "Q".to_string()],
        menus: vec![one_bit_in(), one_bit_in(), one_bit_in(), exp()],
        bits_pairs: vec![0, 1],
        answer: vec![("D".into(), V::Num(1)), ("Q".into(), V::Num(5))],
        last: vec![l(1), l(0), l(1), l(7)],
    });
    v.push(Config {
        name: "vii-b: as vii with the input D_out in front of the bidirectional D in the signal list",
        sigs: vec![Sig::inp("D_out", 1, 0), Sig::out("Q", 4), Sig::bidir("D", 1, V::Z), Sig::inp("CLK", 1, 0)],
        header: vec!["D".to_string(), "D_out".to_string(), "CLK".to_string(), "Q".to_string()],
        menus: vec![one_bit_in(), one_bit_in(), one_bit_in(), exp()],
        bits_pairs: vec![0, 1],
        answer: vec![("D".into(), V::Num(1)), ("Q".into(), V::Num(5))],
        last: vec![l(1), l(0), l(1), l(7)],
    });
    if tier == Tier::Thorough {
        v.push(Config {
            name: "v: five one-bit inputs (up to 5 X: 32 assignments), wide input, two outputs, permuted signal list",
            sigs: vec![
                Sig::out("Q", 4),
                Sig::inp("E", 1, 1),
                Sig::inp("C2", 1, 0),
                Sig::inp("W", 4, 3),
                Sig::inp("A", 1, 0),
                Sig::out("R", 4),
                Sig::inp("B", 1, 0),
                Sig::inp("C1", 1, 0),
            ],
            header: vec!["C1".to_string(), "C2".to_string(), "A".to_string(), "B".to_string(), "E".to_string(), "W".to_string(), "Q".to_string(), "R".to_string()],
            menus: vec![one_bit_in(), one_bit_in(), one_bit_in(), one_bit_in(), one_bit_in(), wide_in(), exp(), exp()],
            bits_pairs: vec![1, 3],
            answer: vec![("Q".into(), V::Num(5)), ("R".into(), V::Num(9))],
            last: vec![l(1), l(0), l(1), l(0), l(1), l(2), l(7), l(9)],
        });
    }
    v
}

const VARIANTS: [&str; 8] = ["depth 0", "loop depth 1", "loop depth 2", "repeat row", "variables named C X Z c x z", "loop counter named X", "row inside a while", "row inside a while inside a loop"];

fn wrap(variant: usize, row: Vec<Entry>, last: &[Entry]) -> Vec<Stmt> {
    let tail = Stmt::Row(last.to_vec());
    match variant {
        0 => vec![Stmt::Let("k".into(), lit(1)), Stmt::Row(row), tail],
        1 => vec![Stmt::Loop("k".into(), lit(2), vec![Stmt::Row(row)]), tail],
        2 => vec![Stmt::Loop("j".into(), lit(2), vec![Stmt::Loop("k".into(), lit(2), vec![Stmt::Row(row), tail.clone()])]), tail],
        3 => vec![Stmt::Let("k".into(), lit(1)), Stmt::Repeat(lit(2), row), tail],
        // variables whose names are spelt like the C / X / Z entries: an entry stays an entry
        4 => {
            let mut b: Vec<Stmt> = ["C", "X", "Z", "c", "x", "z"].iter().enumerate().map(|(j, n)| Stmt::Let(n.to_string(), lit(j as i64 % 2))).collect();
            b.push(Stmt::Let("k".into(), bin(BinOp::Add, name("C"), lit(1))));
            b.push(Stmt::Row(row));
            b.push(tail);
            b
        }
        5 => vec![Stmt::Loop("X".into(), lit(2), vec![Stmt::Let("k".into(), name("X")), Stmt::Row(row)]), tail],
        // the only rows with C / X entries of the program stand in a while body
        6 => vec![Stmt::Let("k".into(), lit(0)), Stmt::While(bin(BinOp::Lt, name("k"), lit(2)), vec![Stmt::Row(row), Stmt::Let("k".into(), bin(BinOp::Add, name("k"), lit(1)))]), tail],
        _ => vec![Stmt::Loop("j".into(), lit(2), vec![Stmt::Let("k".into(), lit(1)), Stmt::While(bin(BinOp::Lt, name("k"), lit(2)), vec![Stmt::Let("k".into(), bin(BinOp::Add, name("k"), lit(1))), Stmt::Row(row)])]), tail],
    }
}

pub fn run(tier: Tier, seed: u64) -> i32 {
    let started = Instant::now();
    let deadline = Deadline::new(tier.wall_cap());
    let mut total = Stats::default();
    // far beyond the enumerated scope: ten X inputs and a clock (3 x 1024 executed rows per source row)
    {
        let mut sigs: Vec<Sig> = (0..10).map(|i| Sig::inp(&format!("I{i}"), 1, 0)).collect();
        sigs.insert(3, Sig::out("Q", 4));
        sigs.push(Sig::inp("CLK", 1, 0));
        let mut header: Vec<String> = (0..10).rev().map(|i| format!("I{i}")).collect();
        header.push("CLK".into());
        header.push("Q".into());
        let mut row: Vec<Entry> = (0..10).map(|_| Entry::X).collect();
        row.push(Entry::C);
        row.push(l(5));
        let prog = Program { header, body: vec![Stmt::Row(row.clone()), Stmt::Loop("k".into(), lit(2), vec![Stmt::Row(row)])] };
        let text = text(&prog);
        let script = vec![Step::Ans(vec![("Q".into(), V::Num(5))])];
        let r = ref_run_fuel(&prog, &sigs, &script, 100_000, 20_000);
        let mut opts = RunOpts::new(r.items.len() + 1);
        opts.repeat_last = true;
        opts.budget = 10_000_000;
        let obs = run_dynamic(&text, &sigs, true, &script, &opts);
        total.evals += 1;
        total.nontrivial += 1;
        total.witness("ten_x_inputs_and_a_clock");
        let proj = Proj { input_values: true, expected: true, output: false, checked_kind: true, lines: false, vars: false, verdicts: false };
        if let Some((k, m)) = run_mismatch(&r, &obs, proj, None) {
            total.violation(&format!("large scale: {}", classify(&m)), 1 << 60, format!("ten X inputs and a clock\n{text}first difference at {m}"), || {
                json!({"kind": "dynamic", "text": text, "signals": sigs_json(&sigs), "driver_overrides_write_input": true, "script": crate::driver::script_json(&script), "max_next": k + 2, "after_end": 0, "continue_after_error": false, "seed": 1, "repeat_last": true, "extra_known": [], "expected": ref_items_brief(&r).into_iter().skip(k.saturating_sub(1)).take(4).collect::<Vec<_>>(), "observed": obs_items_brief(&obs).into_iter().take(k + 3).collect::<Vec<_>>(), "mismatch": m})
            });
        }
    }
    // far beyond the enumerated scope: 63, 64 and 70 X inputs in one row (2^64 and more executed rows):
    // rows are produced lazily, the first 40 are compared. Each case runs in a child process under a
    // memory limit of 4 GB: an implementation that materialises the expansion must not take the
    // machine (or this harness) down with it
    for nx in [63usize, 64, 70] {
        for with_c in [false, true] {
            total.evals += 1;
            total.nontrivial += 1;
            total.witness("sixty_four_and_more_x_inputs");
            if let Some(m) = xcase_in_child(nx, with_c) {
                total.violation(&format!("large scale: {}", m.split(':').next().unwrap_or("?")), (1 << 61) + nx as u64 * 2 + with_c as u64, format!("{nx} X inputs in one row{}: the first 40 executed rows\n{m}", if with_c { " and a clock" } else { "" }), || json!({"kind": "xcase", "nx": nx, "with_c": with_c, "expected": ["the first 40 executed rows as prescribed"], "observed": [m.clone()]}));
            }
        }
    }
    for cfg in configs(tier) {
        let header: Vec<String> = cfg.header.clone();
        // shape families: 0 = plain menus, 1.. = with one bits(2,k) pair
        let mut families: Vec<(Option<usize>, Vec<u64>)> = vec![(None, cfg.menus.iter().map(|m| m.len() as u64).collect())];
        for &bp in &cfg.bits_pairs {
            let rad: Vec<u64> = cfg.menus.iter().enumerate().filter(|(c, _)| *c != bp + 1).map(|(c, m)| if c == bp { 1 } else { m.len() as u64 }).collect();
            families.push((Some(bp), rad));
        }
        for (bp, rad) in &families {
            let n = product(rad) * VARIANTS.len() as u64;
            let label = format!("config {} / {} / x8 program forms", cfg.name, match bp { None => "plain entries".to_string(), Some(c) => format!("bits(2,k) over columns {c},{}", c + 1) });
            let script = vec![Step::Ans(cfg.answer.clone())];
            let st = par_range(&label, n, &deadline, |idx, st| {
                let variant = (idx % VARIANTS.len() as u64) as usize;
                let d = digits(idx / VARIANTS.len() as u64, rad);
                let mut row: Vec<Entry> = vec![];
                let mut di = 0;
                for c in 0..cfg.menus.len() {
                    if Some(c) == bp.map(|b| b + 1) {
                        continue;
                    }
                    if Some(c) == *bp {
                        row.push(Entry::Bits(2, k()));
                    } else {
                        row.push(cfg.menus[c][d[di]].clone());
                    }
                    di += 1;
                }
                let prog = Program { header: header.clone(), body: wrap(variant, row.clone(), &cfg.last) };
                // a C in a column that is not an input is rejected at binding: out of this check's scope
                if bind_judgement(&prog, &cfg.sigs).is_err() {
                    st.witness("shape_rejected_at_binding(C_in_expected_column)");
                    return;
                }
                let text = text(&prog);
                let lines = lines(&prog);
                let rl = row_lines(&lines);
                let r = ref_run_fuel(&prog, &cfg.sigs, &script, 8000, 1000);
                st.evals += 1;
                if r.end == RefEnd::Fuel {
                    st.out_of_scope += 1;
                    return;
                }
                let has_x = r.events.contains("x_expansion");
                let has_c = r.events.contains("c_expansion");
                if has_x || has_c {
                    st.nontrivial += 1;
                }
                for e in &r.events {
                    st.witness(e);
                }
                if has_x && has_c {
                    st.witness("x_and_c_composed");
                }
                st.witness(VARIANTS[variant]);
                let mut opts = RunOpts::new(r.items.len() + 1);
                opts.after_end = 1;
                opts.repeat_last = true;
                let obs = run_dynamic(&text, &cfg.sigs, true, &script, &opts);
                st.steps += obs.items.len() as u64;
                st.outcome(&obs.items);
                if (has_x && has_c) && idx % 211 == 0 {
                    st.sample(|| json!({"config": cfg.name, "program": text, "reference_items": ref_items_brief(&r)}));
                }
                let proj = Proj { input_values: true, expected: true, output: false, checked_kind: true, lines: true, vars: false, verdicts: false };
                let mut mism = run_mismatch(&r, &obs, proj, Some(&rl));
                if mism.is_none() {
                    // call kinds seen by a driver that overrides write_input: W W RW per clock triple
                    for (kk, it) in r.items.iter().enumerate() {
                        if let RefItem::Row(rr) = it {
                            match obs.log.get(kk + 1) {
                                Some(c) if c.rw == rr.checked => {}
                                Some(c) => {
                                    mism = Some((kk, format!("item {kk}: call kind: expected {} call, driver saw {}", if rr.checked { "an output-reading" } else { "a write-only" }, if c.rw { "an output-reading call" } else { "a write-only call" })));
                                    break;
                                }
                                None => {
                                    mism = Some((kk, format!("item {kk}: call kind: no driver call was made for this row")));
                                    break;
                                }
                            }
                        }
                    }
                }
                if let Some((_, m)) = mism {
                    let class = classify(&m);
                    let summary = format!("config {}\nprogram:\n{text}first difference at {m}", cfg.name);
                    st.violation(&class, idx, summary, || dyn_replay(&text, &cfg.sigs, true, &script, &opts, ref_items_brief(&r), &obs, &m));
                }
            });
            total.merge(st);
        }
    }
    // histories: every ordered sequence of 2 (thorough: 3) rows over a reduced menu, two clock
    // columns: what one row's expansion leaves behind must not leak into the next row's
    {
        let sigs = vec![Sig::inp("C1", 1, 0), Sig::out("R", 4), Sig::inp("C2", 1, 0), Sig::inp("A", 1, 0), Sig::inp("W", 4, 3), Sig::out("Q", 4)];
        let header: Vec<String> = ["C1", "C2", "A", "W", "Q", "R"].iter().map(|s| s.to_string()).collect();
        let one = vec![l(0), l(1), Entry::X, Entry::C];
        // (Q): a value read from the device, which answers differently at every call: a source row is
        // evaluated once, when it is reached, for all the device writes it expands into
        let menus2: Vec<Vec<Entry>> = vec![one.clone(), one.clone(), one.clone(), vec![l(5), Entry::C, Entry::Paren(k()), Entry::Paren(name("Q"))], vec![Entry::X, l(2)], vec![Entry::X, Entry::Paren(k())]];
        // sequences of three rows: smaller menus for the wide input and the expected columns
        let menus3: Vec<Vec<Entry>> = vec![one.clone(), one.clone(), one.clone(), vec![l(5), Entry::C], vec![l(2)], vec![Entry::X]];
        let script: Vec<Step> = (0..400).map(|j| Step::Ans(vec![("R".into(), V::Num(9)), ("Q".into(), V::Num((j * 3 + 5) % 16))])).collect();
        let last = vec![l(1), l(0), l(1), l(2), l(7), l(9)];
        for nrows in 2..=tier.pick(2, 3) {
            if nrows == 3 && deadline.expired() {
                break;
            }
            let menus = if nrows == 2 { &menus2 } else { &menus3 };
            let per_row: u64 = menus.iter().map(|m| m.len() as u64).product();
            let rad_row: Vec<u64> = menus.iter().map(|m| m.len() as u64).collect();
            let n = per_row.pow(nrows as u32) * 2;
            let st = par_range(&format!("histories of {nrows} rows over a reduced menu, two clock columns, x2 program forms"), n, &deadline, |idx, st| {
                let form = idx % 2;
                let mut rest = idx / 2;
                let mut rows = vec![];
                for _ in 0..nrows {
                    let d = digits(rest % per_row, &rad_row);
                    rest /= per_row;
                    rows.push(Stmt::Row(d.iter().enumerate().map(|(c, &i)| menus[c][i].clone()).collect()));
                }
                let tail = Stmt::Row(last.clone());
                let body = if form == 0 {
                    let mut b = vec![Stmt::Let("k".into(), lit(1))];
                    b.extend(rows);
                    b.push(tail);
                    b
                } else {
                    vec![Stmt::Loop("k".into(), lit(2), rows), tail]
                };
                let prog = Program { header: header.clone(), body };
                let text = text(&prog);
                let lines = lines(&prog);
                let rl = row_lines(&lines);
                let r = ref_run_fuel(&prog, &sigs, &script, 20_000, 4000);
                st.evals += 1;
                if r.end == RefEnd::Fuel {
                    st.out_of_scope += 1;
                    return;
                }
                if r.events.contains("c_expansion") || r.events.contains("x_expansion") {
                    st.nontrivial += 1;
                }
                st.witness("history_of_rows");
                if r.events.contains("x_expansion") && mentions(&prog.body, "Q") {
                    st.witness("row_reading_the_device_while_it_is_expanded");
                }
                let mut opts = RunOpts::new(r.items.len() + 1);
                opts.after_end = 1;
                opts.repeat_last = true;
                let obs = run_dynamic(&text, &sigs, true, &script, &opts);
                st.steps += obs.items.len() as u64;
                let proj = Proj { input_values: true, expected: true, output: false, checked_kind: true, lines: true, vars: false, verdicts: false };
                let mut mm = run_mismatch(&r, &obs, proj, Some(&rl));
                if mm.is_none() && nrows == 2 {
                    // a driver that relies on the provided write_input sees one call for every executed row,
                    // with the row's inputs (a write that repeats the previous vector is a write all the same)
                    let fw = run_dynamic(&text, &sigs, false, &script, &opts);
                    st.witness("history_through_the_provided_write_input");
                    let rows_fw = fw.items.iter().filter(|i| i.is_row()).count();
                    if fw.items != obs.items {
                        mm = Some((0, "item 0: inputs value: a driver without its own write_input gets other rows than one with it".into()));
                    } else if fw.log.len() != rows_fw + 1 {
                        mm = Some((0, format!("item 0: call kind: a driver that relies on the provided write_input saw {} calls for {} executed rows (and the constructor's)", fw.log.len(), rows_fw)));
                    }
                }
                if let Some((_, m)) = mm {
                    let class = format!("history: {}", classify(&m));
                    let summary = format!("program:\n{text}first difference at {m}");
                    st.violation(&class, idx, summary, || dyn_replay(&text, &sigs, true, &script, &opts, ref_items_brief(&r), &obs, &m));
                }
            });
            total.merge(st);
        }
    }
    // histories with one driver fault: the call that fails may be any of the writes (also the first
    // or second of a clock triple); the caller carries on; every other write still happens as prescribed
    {
        let sigs = vec![Sig::inp("C1", 1, 0), Sig::inp("C2", 1, 0), Sig::inp("A", 1, 0), Sig::out("Q", 4)];
        let header: Vec<String> = ["C1", "C2", "A", "Q"].iter().map(|s| s.to_string()).collect();
        let menus: Vec<Vec<Entry>> = vec![vec![l(0), Entry::C, Entry::X], vec![l(0), Entry::C], vec![l(1), Entry::X], vec![Entry::X, l(2)]];
        let rad: Vec<u64> = menus.iter().map(|m| m.len() as u64).collect();
        let per_row = product(&rad);
        let ok = Step::Ans(vec![("Q".into(), V::Num(5))]);
        let st = par_range("histories of 2 rows x one driver fault at call 1..10 x 2 program forms, caller carries on", per_row * per_row * 2 * 10, &deadline, |idx, st| {
            let fault_at = (idx % 10) as usize + 1;
            let form = (idx / 10) % 2;
            let mut rest = idx / 20;
            let mut rows = vec![];
            for _ in 0..2 {
                let d = digits(rest % per_row, &rad);
                rest /= per_row;
                rows.push(Stmt::Row(d.iter().enumerate().map(|(c, &i)| menus[c][i].clone()).collect()));
            }
            let body = if form == 0 { rows } else { vec![Stmt::Loop("k".into(), lit(2), rows)] };
            let prog = Program { header: header.clone(), body };
            let text = text(&prog);
            let mut script: Vec<Step> = vec![ok.clone(); fault_at];
            script.push(Step::Fault(55));
            script.push(ok.clone());
            let mut env = ScriptEnv::new(&script);
            env.repeat_last = true;
            let r = crate::refsem::run_opts2(&prog, &sigs, &mut env, Fuel { steps: 20_000, rows: 400 }, true, false);
            st.evals += 1;
            if !r.items.iter().any(|i| matches!(i, RefItem::DriverErr(_))) {
                return;
            }
            st.nontrivial += 1;
            st.witness("history_with_a_driver_fault_then_carried_on");
            let mut opts = RunOpts::new(r.items.len() + 1);
            opts.after_end = 1;
            opts.repeat_last = true;
            opts.continue_after_error = true;
            let obs = run_dynamic(&text, &sigs, true, &script, &opts);
            st.steps += obs.items.len() as u64;
            let proj = Proj { input_values: true, expected: true, output: false, checked_kind: true, lines: false, vars: false, verdicts: false };
            let mut mism = run_mismatch(&r, &obs, proj, None).map(|x| x.1);
            if mism.is_none() {
                // the writes the device saw: one call per item, kinds W W RW per clock triple
                for (kk, it) in r.items.iter().enumerate() {
                    let checked = match it {
                        RefItem::Row(rr) => rr.checked,
                        _ => continue,
                    };
                    match obs.log.get(kk + 1) {
                        Some(c) if c.rw == checked => {}
                        _ => {
                            mism = Some(format!("item {kk}: call kind: expected {} call", if checked { "an output-reading" } else { "a write-only" }));
                            break;
                        }
                    }
                }
            }
            if let Some(m) = mism {
                let class = format!("history with a fault: {}", classify(&m));
                st.violation(&class, idx, format!("program:\n{text}the driver fails at call {fault_at} (once), the caller carries on\nfirst difference at {m}"), || dyn_replay(&text, &sigs, true, &script, &opts, ref_items_brief(&r), &obs, &m));
            }
        });
        total.merge(st);
    }
    total.merge(crate::props::c13::api_use_part(&deadline));
    let meta = CheckMeta {
        id: "C05",
        tier,
        seed,
        rule: "every combination of per-column entries {0,1,X,C,Z,(k)} / {5,X,C,(k+1),Z} / expected {X,Z,2,(k)} (and bits(2,k) over adjacent columns), in each of 4 program forms, for each configuration; mixed-radix index decoded injectively; plus every ordered sequence of 2 (thorough: 3) rows over a reduced menu with two clock columns; a case is non-trivial if a row holds X or C in an input column".into(),
        assumptions: vec!["reference expansion in refsem.rs::do_row is the oracle".into(), "loop bounds are >= 1 here (bounds <= 0 are C01's)".into()],
        required_witnesses: vec!["ten_x_inputs_and_a_clock", "sixty_four_and_more_x_inputs", "x_expansion", "c_expansion", "x_and_c_composed", "bits_row", "depth 0", "loop depth 1", "loop depth 2", "repeat row", "variables named C X Z c x z", "loop counter named X", "history_of_rows", "history_through_the_provided_write_input", "history_with_a_driver_fault_then_carried_on", "row_reading_the_device_while_it_is_expanded", "iterator_advanced_with_nth"],
        exhaustive_note: "all row shapes over the stated menus for every configuration and program form".into(),
        e1: false,
    };
    total.merge(many_clocks_cases(&deadline));
    finish(meta, total, started)
}


/// Rows with many clock columns (9 to 20 C entries at once, next to literals, an X and a Z): all
/// clock columns go 0, 1, 0 together, everything else is held.
fn many_clocks_cases(deadline: &Deadline) -> Stats {
    let ns = [8usize, 9, 10, 16, 17, 20];
    par_range("rows with 8, 9, 10, 16, 17, 20 clock columns x {all C, every other one C, C with an X and a Z among them} x 2 signal-list orders", ns.len() as u64 * 6, deadline, |u, st| {
        let n = ns[(u / 6) as usize];
        let shape = (u / 2) % 3;
        let rev = u % 2 == 1;
        let mut sigs: Vec<Sig> = (0..n).map(|i| Sig::inp(&format!("K{i}"), 1, 0)).collect();
        sigs.push(Sig::inp("D", 4, 3));
        sigs.push(Sig::bidir("E", 4, V::Z));
        sigs.push(Sig::out("Q", 4));
        let mut header: Vec<String> = (0..n).map(|i| format!("K{i}")).collect();
        header.extend(["D".to_string(), "E".to_string(), "Q".to_string()]);
        if rev {
            sigs.reverse();
        }
        let clk = |i: usize| match shape {
            0 => Entry::C,
            1 => {
                if i % 2 == 0 {
                    Entry::C
                } else {
                    l((i % 2) as i64)
                }
            }
            _ => {
                if i == 3 {
                    Entry::X
                } else {
                    Entry::C
                }
            }
        };
        let mut row: Vec<Entry> = (0..n).map(clk).collect();
        row.extend([l(9), if shape == 2 { Entry::Z } else { l(2) }, l(5)]);
        let mut row2: Vec<Entry> = (0..n).map(|i| if i + 1 == n { Entry::C } else { l(1) }).collect();
        row2.extend([l(1), l(1), Entry::X]);
        let prog = Program { header, body: vec![Stmt::Row(row), Stmt::Row(row2)] };
        let text = text(&prog);
        let script = vec![Step::Ans(vec![("Q".into(), V::Num(5)), ("E".into(), V::Num(2))])];
        let r = ref_run_fuel(&prog, &sigs, &script, 10_000, 40);
        let mut opts = RunOpts::new(r.items.len() + 1);
        opts.repeat_last = true;
        let obs = run_dynamic(&text, &sigs, true, &script, &opts);
        st.evals += 1;
        st.nontrivial += 1;
        st.witness("row_with_nine_or_more_clock_columns");
        let proj = Proj { input_values: true, expected: true, output: false, checked_kind: true, lines: false, vars: false, verdicts: false };
        if let Some((k, m)) = run_mismatch(&r, &obs, proj, None) {
            st.violation(&format!("many clocks: {}", classify(&m)), (1 << 62) + u, format!("{n} clock columns, shape {shape}\nprogram:\n{text}first difference at {m} (item {k})"), || dyn_replay(&text, &sigs, true, &script, &opts, ref_items_brief(&r), &obs, &m));
        }
    })
}

fn xcase_program(nx: usize, with_c: bool) -> (Program, Vec<Sig>) {
    let mut sigs: Vec<Sig> = (0..nx).map(|i| Sig::inp(&format!("I{i}"), 1, 0)).collect();
    sigs.push(Sig::inp("CLK", 1, 0));
    sigs.push(Sig::out("Q", 4));
    let mut header: Vec<String> = (0..nx).map(|i| format!("I{i}")).collect();
    header.push("CLK".into());
    header.push("Q".into());
    let mut row: Vec<Entry> = (0..nx).map(|_| Entry::X).collect();
    row.push(if with_c { Entry::C } else { l(1) });
    row.push(l(5));
    (Program { header, body: vec![Stmt::Row(row)] }, sigs)
}

/// The body of the child process: 0 = as prescribed, 1 = mismatch (printed)
pub fn xcase(nx: usize, with_c: bool) -> i32 {
    let (prog, sigs) = xcase_program(nx, with_c);
    let text = text(&prog);
    let script = vec![Step::Ans(vec![("Q".into(), V::Num(5))])];
    let r = ref_run_fuel(&prog, &sigs, &script, 100_000, 40);
    let mut opts = RunOpts::new(40);
    opts.repeat_last = true;
    opts.budget = 10_000_000;
    let obs = run_dynamic(&text, &sigs, true, &script, &opts);
    let proj = Proj { input_values: true, expected: true, output: false, checked_kind: true, lines: false, vars: false, verdicts: false };
    match run_mismatch(&r, &obs, proj, None) {
        None => {
            println!("XCASE OK");
            0
        }
        Some((k, m)) => {
            println!("XCASE MISMATCH {}: first difference at {m} (item {k})", classify(&m));
            1
        }
    }
}

/// Run one case in a child process under `ulimit -v` (4 GB); None = as prescribed
pub fn xcase_in_child(nx: usize, with_c: bool) -> Option<String> {
    let exe = std::env::current_exe().ok()?;
    let out = std::process::Command::new("sh")
        .arg("-c")
        .arg(format!("ulimit -v 4000000; exec '{}' xcase {nx} {}", exe.display(), with_c as u8))
        .output()
        .ok()?;
    let stdout = String::from_utf8_lossy(&out.stdout);
    if out.status.code() == Some(0) && stdout.contains("XCASE OK") {
        return None;
    }
    if let Some(l) = stdout.lines().find(|l| l.starts_with("XCASE MISMATCH ")) {
        return Some(l["XCASE MISMATCH ".len()..].to_string());
    }
    Some(format!("process ends abnormally: the child process running this one case under a 4 GB memory limit ended with {:?} ({})", out.status, String::from_utf8_lossy(&out.stderr).lines().last().unwrap_or("")))
}

pub fn replay_xcase(j: &serde_json::Value) -> Vec<String> {
    vec![xcase_in_child(j["nx"].as_u64().unwrap_or(64) as usize, j["with_c"].as_bool().unwrap_or(false)).unwrap_or("as prescribed".into())]
}
