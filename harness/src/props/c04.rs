//! C04 — expressions that read outputs see the most recently read device values
//! (DESIGN §6/C04). Explicit-state exploration (E1): feedback programs x every history of
//! device answers, graphs made finite by de-duplication.

use crate::compare::*;
use crate::e1::*;
use crate::engine::*;
use crate::model::*;
use crate::props::util::*;
use crate::refsem::*;
use crate::space::*;
use crate::subject::*;
use serde_json::json;
use std::sync::Arc;
use std::time::Instant;

pub fn lists() -> Vec<Vec<Sig>> {
    vec![
        vec![Sig::inp("A", 8, 0), Sig::inp("CLK", 1, 0), Sig::out("Q", 8), Sig::out("DONE", 1)],
        vec![Sig::out("DONE", 1), Sig::bidir("Q", 8, V::Num(4)), Sig::inp("CLK", 1, 0), Sig::inp("A", 8, 0)],
    ]
}

pub fn alphabet() -> (Vec<Stmt>, Vec<Block>) {
    let l = |n: i64| Entry::Lit(n, Radix::Dec);
    let q = || name("Q");
    let p = |e: Expr| Entry::Paren(e);
    let atoms = vec![
        Stmt::Row(vec![p(q()), l(0), Entry::X, Entry::X]),
        Stmt::Row(vec![p(bin(BinOp::Add, q(), lit(1))), Entry::C, Entry::X, Entry::X]),
        Stmt::Row(vec![l(1), Entry::C, Entry::X, Entry::X]),
        Stmt::Row(vec![p(name("a")), l(0), Entry::X, Entry::X]),
        Stmt::Let("a".into(), q()),
        Stmt::Let("Q".into(), lit(7)),
        // a value the device may be showing for Q at that very moment: the variable must exist all the same
        Stmt::Let("Q".into(), lit(1)),
        Stmt::Let("Q".into(), bin(BinOp::Add, q(), lit(1))),
        Stmt::Let("a".into(), bin(BinOp::Add, name("a"), q())),
        Stmt::Repeat(q(), vec![p(name("n")), l(0), Entry::X, Entry::X]),
        // resetRandom must leave the values read from the device alone
        Stmt::ResetRandom,
    ];
    let blocks = vec![Block::Loop("i".into(), q()), Block::Loop("Q".into(), lit(2)), Block::While(un(UnOp::Not, name("DONE"))), Block::While(bin(BinOp::Lt, q(), lit(2)))];
    (atoms, blocks)
}

pub fn answers(sigs: &[Sig], omit: Option<&str>, qvals: &[V]) -> Vec<MenuItem> {
    let mut out = vec![];
    for q in qvals {
        for d in [0i64, 1] {
            let a: Answer = sigs
                .iter()
                .filter(|s| s.is_out() && Some(s.name.as_str()) != omit)
                .map(|s| (s.name.clone(), if s.name == "Q" { *q } else { V::Num(d) }))
                .collect();
            if !out.iter().any(|m: &MenuItem| m.step == crate::driver::Step::Ans(a.clone())) {
                out.push(MenuItem::ans(a));
            }
        }
    }
    out
}

/// Replace the bound of every loop/repeat statement by the literal the reference evaluated it to
fn substitute(stmts: &[Stmt], evals: &[(usize, i64)]) -> Vec<Stmt> {
    stmts
        .iter()
        .map(|s| {
            let lit_for = |e: &Expr| -> Expr {
                match evals.iter().find(|(a, _)| *a == s as *const Stmt as usize) {
                    Some((_, v)) if *v >= 0 => lit(*v),
                    Some((_, v)) => bin(BinOp::Sub, lit(0), lit(-*v)),
                    None => e.clone(),
                }
            };
            match s {
                Stmt::Loop(v, e, b) => Stmt::Loop(v.clone(), lit_for(e), substitute(b, evals)),
                Stmt::Repeat(e, es) => Stmt::Repeat(lit_for(e), es.clone()),
                Stmt::While(c, b) => Stmt::While(c.clone(), substitute(b, evals)),
                other => other.clone(),
            }
        })
        .collect()
}

fn oracle() -> Oracle {
    Arc::new(|seen: &Seen<'_>, st: &mut Stats| {
        let r = seen.reference;
        let o = seen.obs;
        let proj = Proj { input_values: true, expected: true, output: false, checked_kind: true, lines: false, vars: false, verdicts: false };
        let mism: Option<String> = match seen.item {
            None => {
                if !init_matches(&r.init, &o.init) {
                    Some(format!("construction: expected {:?}, got {}", r.init, o.init.brief()))
                } else if matches!(r.init, RefInit::MissingOutputs(_)) {
                    st.witness("read_output_not_supplied_constructor_fails");
                    if o.log.len() != 1 {
                        Some(format!("construction: must fail after exactly one driver call, {} were made", o.log.len()))
                    } else {
                        None
                    }
                } else {
                    None
                }
            }
            Some(k) => match (r.items.get(k), o.items.get(k)) {
                (Some(_), Some(oi)) if seen.deviation_call.is_some() && seen.deviation_call == o.calls_after.get(k + 1).map(|n| n.wrapping_sub(1)) && o.calls_after.get(k + 1) > o.calls_after.get(k) => {
                    // the row whose answer broke the layout: an error item (C13's), nothing to compare
                    st.witness("row_with_an_answer_of_the_wrong_length");
                    if matches!(oi, ObsItem::Runtime(_) | ObsItem::DriverErr(_)) {
                        None
                    } else {
                        Some(format!("item {k}: expected an error item for an answer that departs from the first layout, got {}", oi.brief()))
                    }
                }
                (Some(ri), Some(oi)) => {
                    if matches!(ri, RefItem::ExprErr(RefErr::NonNumeric(..))) {
                        st.witness("read_of_Z_or_X_is_an_error_item");
                    }
                    item_mismatch(ri, oi, proj, None, None).map(|m| format!("item {k}: {m}"))
                }
                (None, Some(oi)) if r.end == RefEnd::Done => {
                    if *oi == ObsItem::End {
                        None
                    } else {
                        Some(format!("item {k}: expected end of iteration, got {}", oi.brief()))
                    }
                }
                (Some(ri), None) => Some(format!("item {k}: expected {}, but the iteration had stopped", ref_brief(ri))),
                _ => None,
            },
        };
        let m = mism?;
        // separation from C01 (DESIGN §6/C04): a value read as a loop/repeat bound is only visible
        // through control flow. If every such bound was evaluated at most once in this history,
        // substitute the literal and see whether the subject is wrong on the literal program too.
        let evals = &r.bound_evals;
        let once = evals.iter().all(|(a, _)| evals.iter().filter(|(b, _)| a == b).count() == 1);
        if !evals.is_empty() && once {
            let prog2 = Program { header: seen.case.prog.header.clone(), body: substitute(&seen.case.prog.body, evals) };
            if prog2 != seen.case.prog {
                let text2 = text(&prog2);
                let mut env = ScriptEnv::new(seen.script);
                let r2 = run_opts(&prog2, &seen.case.sigs, &mut env, Fuel { steps: 3000, rows: 200 }, false);
                let opts = RunOpts::new(o.items.len().max(1));
                let o2 = run_dynamic(&text2, &seen.case.sigs, seen.case.ov, seen.script, &opts);
                let upto = seen.item.map(|k| k + 1).unwrap_or(0);
                let wrong_on_literal = (0..upto).any(|k| match (r2.items.get(k), o2.items.get(k)) {
                    (Some(ri), Some(oi)) => item_mismatch(ri, oi, proj, None, None).is_some(),
                    (None, Some(oi)) => *oi != ObsItem::End,
                    (Some(_), None) => true,
                    _ => false,
                });
                if wrong_on_literal {
                    st.witness("mismatch_attributed_to_loop_execution_not_to_reading");
                    return None;
                }
            }
        }
        Some((classify(&m), format!("first difference at {m}")))
    })
}

/// Far beyond the enumerated scope: 70 and 130 outputs, the program reads one of them, the driver
/// supplies a few others (the one 64 places away among them): constructing the iterator fails, for
/// every position of the read output; when the driver does supply it, rows are yielded.
fn many_outputs_cases(deadline: &Deadline) -> Stats {
    let ns = [66usize, 70, 130];
    par_range("70 / 130 outputs: the program reads output j, the driver supplies {j-64, j+64, 0, n-1} without j / with j, for every j", ns.iter().map(|n| *n as u64).sum::<u64>() * 2, deadline, |u, st| {
        let mut u2 = u / 2;
        let with = u % 2 == 1;
        let mut n = 0;
        for m in ns {
            if u2 < m as u64 {
                n = m;
                break;
            }
            u2 -= m as u64;
        }
        let j = u2 as usize;
        // an input first, then an output, then the rest: signal indices and output numbers differ by one
        let mut sigs: Vec<Sig> = vec![Sig::inp("A", 8, 0)];
        sigs.extend((0..n).map(|i| Sig::out(&format!("O{i}"), 8)));
        let prog = Program { header: vec!["A".into()], body: vec![Stmt::Row(vec![Entry::Paren(bin(BinOp::Add, name(&format!("O{j}")), lit(1)))]), Stmt::Row(vec![Entry::Lit(2, Radix::Dec)])] };
        let text = crate::model::text(&prog);
        let mut supplied: Vec<usize> = vec![0, n - 1];
        if j >= 64 {
            supplied.push(j - 64);
        }
        if j >= 63 {
            supplied.push(j - 63);
        }
        if j + 64 < n {
            supplied.push(j + 64);
        }
        if j + 65 < n {
            supplied.push(j + 65);
        }
        supplied.retain(|i| *i != j);
        if with {
            supplied.push(j);
        }
        supplied.sort();
        supplied.dedup();
        let script = vec![crate::driver::Step::Ans(supplied.iter().map(|i| (format!("O{i}"), V::Num(*i as i64 % 200))).collect())];
        let mut opts = RunOpts::new(4);
        opts.repeat_last = true;
        let obs = run_dynamic(&text, &sigs, true, &script, &opts);
        st.evals += 1;
        st.nontrivial += 1;
        st.witness("more_than_64_outputs");
        let bad = match (&obs.init, with) {
            (ObsInit::Runtime(_), false) => None,
            (other, false) => Some(format!("construction: the program reads O{j}, the driver supplies only {supplied:?}: try_iter must fail before any row is run, it gives {}", other.brief())),
            (ObsInit::Ok, true) => match obs.items.first() {
                Some(ObsItem::Row(r)) if r.inputs.first().map(|i| i.1) == Some(V::Num((j as i64 % 200) + 1)) => None,
                other => Some(format!("inputs value: the driver supplies O{j} = {}; the first row must write A = {}, got {:?}", j % 200, j % 200 + 1, other.map(|i| i.brief()))),
            },
            (other, true) => Some(format!("construction: the driver supplies the output the program reads (O{j}), try_iter gives {}", other.brief())),
        };
        if let Some(m) = bad {
            st.violation(&format!("large scale: {}", m.split(':').next().unwrap_or("?")), (14 << 40) + u, format!("{n} outputs\nprogram:\n{text}{m}"), || dyn_replay(&text, &sigs, true, &script, &opts, vec![if with { "rows".into() } else { "try_iter fails (missing output)".into() }], &obs, &m));
        }
    })
}

pub fn run(tier: Tier, seed: u64) -> i32 {
    let started = Instant::now();
    let deadline = Deadline::new(tier.wall_cap());
    let (atoms, blocks) = alphabet();
    let maxk = tier.pick(3, 4);
    let depth = tier.pick(7, 10);
    let header: Vec<String> = ["A", "CLK", "Q", "DONE"].iter().map(|s| s.to_string()).collect();
    let qvals = [V::Num(0), V::Num(1), V::Num(2), V::Z, V::X];
    let mut cases = vec![];
    let mut skipped = 0u64;
    let mut nprog = 0u64;
    for k in 1..=maxk {
        let sp = ForestSpace::new(atoms.clone(), blocks.clone(), 2, k);
        for idx in 0..sp.count(k) {
            let prog = Program { header: header.clone(), body: sp.unrank(k, idx) };
            for (li, sigs) in lists().into_iter().enumerate() {
                if bind_judgement(&prog, &sigs).is_err() {
                    skipped += 1;
                    continue;
                }
                if !mentions(&prog.body, "Q") && !mentions(&prog.body, "DONE") {
                    continue;
                }
                if k == 4 && li == 1 {
                    continue;
                }
                nprog += 1;
                for ov in [true, false] {
                    for omit in [None, Some("Q"), Some("DONE")] {
                        if omit.is_some() && (k > 2 || !ov) {
                            continue;
                        }
                        let menu = answers(&sigs, omit, &qvals);
                        let name = format!("K={k} #{idx} list {li} {} layout {}", if ov { "Ov" } else { "Fw" }, omit.map(|o| format!("omits {o}")).unwrap_or("full".into()));
                        cases.push(Case::new(&name, prog.clone(), sigs.clone(), ov, menu.clone(), menu, depth));
                    }
                }
            }
        }
    }
    // continuing after an error item whose call was made: variables still take precedence
    {
        let l = |n: i64| Entry::Lit(n, Radix::Dec);
        let rowq = || Stmt::Row(vec![Entry::Paren(name("Q")), l(0), Entry::X, Entry::X]);
        let sigs = lists().remove(0);
        for (nm, body) in [
            ("virtual signal fails, variable Q keeps shadowing", vec![Stmt::Declare("V".into(), bin(BinOp::Add, name("Q"), lit(1))), Stmt::Let("Q".into(), lit(7)), rowq(), rowq(), rowq()]),
            ("virtual signal fails inside a loop", vec![Stmt::Declare("V".into(), bin(BinOp::Div, lit(8), name("Q"))), Stmt::Loop("Q".into(), lit(3), vec![rowq()]), rowq()]),
        ] {
            let prog = Program { header: header.clone(), body };
            let menu = answers(&sigs, None, &[V::Num(0), V::Num(1), V::Z]);
            let mut c = Case::new(&format!("continue after error: {nm}"), prog, sigs.clone(), true, menu.clone(), menu, 6);
            c.continue_after_call_errors = true;
            cases.push(c);
        }
    }
    // an answer with the wrong number of outputs makes its row an error, but it is still the latest
    // output-reading call: what it returned for Q is what later expressions read
    {
        let l = |n: i64| Entry::Lit(n, Radix::Dec);
        let rowq = || Stmt::Row(vec![Entry::Paren(name("Q")), l(0), Entry::X, Entry::X]);
        let sigs = lists().remove(0);
        let prog = Program { header: header.clone(), body: vec![rowq(), rowq(), Stmt::Let("a".into(), name("Q")), Stmt::Row(vec![Entry::Paren(name("a")), Entry::C, Entry::X, Entry::X]), rowq()] };
        let normal = answers(&sigs, None, &[V::Num(0), V::Num(1)]);
        let mut menu = normal.clone();
        menu.push(MenuItem { step: crate::driver::Step::Ans(vec![("Q".into(), V::Num(5))]), deviation: true, label: "only Q (=5)".into() });
        menu.push(MenuItem { step: crate::driver::Step::Ans(vec![("Q".into(), V::Num(6)), ("DONE".into(), V::Num(0)), ("Q".into(), V::Num(6))]), deviation: true, label: "Q=6 DONE Q=6".into() });
        // the right number of outputs in another order: an error item all the same, and Q is what was returned for Q
        menu.push(MenuItem { step: crate::driver::Step::Ans(vec![("DONE".into(), V::Num(1)), ("Q".into(), V::Num(7))]), deviation: true, label: "DONE=1 Q=7 (swapped)".into() });
        for ov in [true, false] {
            let mut c = Case::new(&format!("answer with the wrong number of outputs, caller carries on ({})", if ov { "Ov" } else { "Fw" }), prog.clone(), sigs.clone(), ov, normal.clone(), menu.clone(), 12);
            c.dev_budget = 1;
            c.continue_after_call_errors = true;
            cases.push(c);
        }
    }
    // an X-expanded row whose reads may fail one by one (the caller carries on): what a later expression
    // reads is the answer of the latest call that did return; and operators are strict: a Z or X operand
    // is an error whatever the other operand is
    {
        let l = |n: i64| Entry::Lit(n, Radix::Dec);
        let rowq = || Stmt::Row(vec![Entry::Paren(name("Q")), l(0), Entry::X, Entry::X]);
        let sigs = lists().remove(0);
        let normal = answers(&sigs, None, &[V::Num(0), V::Num(1), V::Num(2)]);
        let mut menu = normal.clone();
        menu.push(MenuItem { step: crate::driver::Step::Fault(66), deviation: true, label: "fault".into() });
        let progs = vec![
            ("X row then reads", vec![Stmt::Row(vec![Entry::X, l(0), Entry::X, Entry::X]), rowq(), Stmt::Let("a".into(), name("Q")), Stmt::Row(vec![Entry::X, Entry::C, Entry::X, Entry::X]), Stmt::Row(vec![Entry::Paren(bin(BinOp::Add, name("a"), name("Q"))), l(0), Entry::X, Entry::X])]),
            ("X row inside a loop whose bound is read afterwards", vec![Stmt::Loop("k".into(), lit(2), vec![Stmt::Row(vec![Entry::X, l(0), Entry::X, Entry::X]), rowq()]), Stmt::Repeat(name("Q"), vec![Entry::Paren(name("n")), l(0), Entry::X, Entry::X])]),
        ];
        for (nm, body) in progs {
            let prog = Program { header: header.clone(), body };
            let mut c = Case::new(&format!("{nm}, one driver fault, caller carries on"), prog, sigs.clone(), true, normal.clone(), menu.clone(), 14);
            c.dev_budget = 1;
            c.continue_after_call_errors = true;
            cases.push(c);
        }
        let strict = vec![
            Stmt::Row(vec![Entry::Paren(bin(BinOp::And, lit(0), name("Q"))), l(0), Entry::X, Entry::X]),
            Stmt::Row(vec![Entry::Paren(bin(BinOp::Or, un(UnOp::Neg, lit(1)), name("Q"))), l(0), Entry::X, Entry::X]),
            Stmt::Row(vec![Entry::Paren(bin(BinOp::Mul, name("Q"), lit(0))), l(0), Entry::X, Entry::X]),
            Stmt::Let("a".into(), bin(BinOp::And, name("DONE"), name("Q"))),
            Stmt::Loop("k".into(), lit(1), vec![Stmt::Row(vec![Entry::Paren(bin(BinOp::And, name("k"), name("Q"))), l(0), Entry::X, Entry::X])]),
            Stmt::While(bin(BinOp::And, lit(0), name("Q")), vec![rowq()]),
            rowq(),
        ];
        let prog = Program { header: header.clone(), body: strict };
        let m2 = answers(&sigs, None, &[V::Num(1), V::Z, V::X]);
        let mut c = Case::new("operators are strict in both operands (0 & Q, -1 | Q, Q * 0 with Q = Z / X)", prog, sigs.clone(), true, m2.clone(), m2, 10);
        c.continue_after_call_errors = true;
        c.continue_after_row_errors = true;
        cases.push(c);
    }
    // device values that do not fit the width of the output they are reported for (a sign-extended
    // reading, stray high bits): an expression reads the value the driver returned
    {
        let l = |n: i64| Entry::Lit(n, Radix::Dec);
        let rowq = || Stmt::Row(vec![Entry::Paren(name("Q")), l(0), Entry::X, Entry::X]);
        let sigs = vec![Sig::inp("A", 16, 0), Sig::inp("CLK", 1, 0), Sig::out("Q", 4), Sig::out("DONE", 1)];
        let body = vec![rowq(), Stmt::Let("a".into(), bin(BinOp::Add, name("Q"), lit(1))), Stmt::Row(vec![Entry::Paren(name("a")), Entry::C, Entry::X, Entry::X]), Stmt::Row(vec![Entry::Paren(bin(BinOp::Lt, name("Q"), lit(0))), l(0), Entry::X, Entry::X]), Stmt::Repeat(bin(BinOp::Shr, name("Q"), lit(4)), vec![Entry::Paren(name("n")), l(0), Entry::X, Entry::X]), rowq()];
        let prog = Program { header: header.clone(), body };
        let menu: Vec<MenuItem> = [-1i64, 16, 0x1F, 300, 5].iter().map(|q| MenuItem::ans(vec![("Q".into(), V::Num(*q)), ("DONE".into(), V::Num(3))])).collect();
        for ov in [true, false] {
            cases.push(Case::new(&format!("device values outside the width of their output ({})", if ov { "Ov" } else { "Fw" }), prog.clone(), sigs.clone(), ov, menu.clone(), menu.clone(), 10));
        }
    }
    // a real output called like the expected column of a bidirectional signal: `B_out` in an
    // expression is that output, `B` the bidirectional signal, whatever order the driver lists them in
    {
        let l = |n: i64| Entry::Lit(n, Radix::Dec);
        let sigs = vec![Sig::inp("A", 8, 0), Sig::inp("CLK", 1, 0), Sig::bidir("B", 8, V::Num(4)), Sig::out("B_out", 8)];
        let header: Vec<String> = ["A", "CLK", "B", "B_out"].iter().map(|s| s.to_string()).collect();
        let body = vec![
            Stmt::Row(vec![Entry::Paren(name("B_out")), l(0), Entry::Z, Entry::X]),
            Stmt::Row(vec![Entry::Paren(bin(BinOp::Sub, name("B_out"), name("B"))), Entry::C, Entry::Z, Entry::X]),
            Stmt::Let("a".into(), name("B")),
            Stmt::Row(vec![Entry::Paren(name("a")), l(0), Entry::Z, Entry::X]),
            Stmt::Row(vec![Entry::Paren(name("B")), l(0), l(1), Entry::X]),
        ];
        let prog = Program { header, body };
        for order in 0..2 {
            let mut menu = vec![];
            for (b, bo) in [(1i64, 5i64), (2, 6), (5, 1)] {
                let mut a = vec![("B".to_string(), V::Num(b)), ("B_out".to_string(), V::Num(bo))];
                if order == 1 {
                    a.reverse();
                }
                menu.push(MenuItem::ans(a));
            }
            for ov in [true, false] {
                cases.push(Case::new(&format!("bidirectional B next to a real output B_out, driver order {order} ({})", if ov { "Ov" } else { "Fw" }), prog.clone(), sigs.clone(), ov, menu.clone(), menu.clone(), 12));
            }
        }
    }
    let ncases = cases.len();
    let res = explore(cases, oracle(), true, &deadline);
    let mut st = res.stats;
    st.nontrivial = st.states;
    st.space("programs x signal lists explored (bind-accepted, reading a device output)", nprog);
    st.space("program x signal list combinations rejected at binding (variable read out of scope), skipped", skipped);
    st.sample(|| json!({"case_count": ncases, "menu": "each output-reading call answers Q in {0,1,2,Z,X} x DONE in {0,1}", "example_program": "A CLK Q DONE\nwhile ( ! DONE )\n( Q + 1 ) C X X\nend while\n( Q ) 0 X X\n"}));
    // thorough: validate the state key by a stateless re-exploration of a slice
    if tier == Tier::Thorough && st.violations.is_empty() {
        let (atoms, blocks) = alphabet();
        let sp = ForestSpace::new(atoms, blocks, 2, 2);
        let mut small = vec![];
        for idx in 0..sp.count(2) {
            let prog = Program { header: header.clone(), body: sp.unrank(2, idx) };
            let sigs = lists().remove(0);
            if bind_judgement(&prog, &sigs).is_err() || !mentions(&prog.body, "Q") {
                continue;
            }
            let menu = answers(&sigs, None, &qvals);
            small.push(Case::new(&format!("stateless K=2 #{idx}"), prog, sigs, true, menu.clone(), menu, 5));
        }
        let un = explore(small, oracle(), false, &deadline);
        let missing = un.keys.iter().filter(|k| !res.keys.contains(k)).count();
        st.extra.insert("stateless_recheck_states".into(), json!(un.stats.states));
        st.extra.insert("stateless_recheck_keypairs_not_seen_by_merged_run".into(), json!(missing));
        if missing > 0 {
            st.violation("state key unsound", 0, format!("{missing} (implementation key, reference key) pairs reached by the stateless exploration were never visited by the merged exploration"), || json!({"kind": "none"}));
        }
        for (k, v) in un.stats.violations {
            st.violations.insert(format!("{k} (stateless)"), v);
        }
    }
    let meta = CheckMeta {
        id: "C04",
        tier,
        seed,
        rule: "explicit-state BFS (stateright): one model state per distinct (real iterator state via hook H6, reference continuation) pair; transitions = one next() under one environment choice (the answer of the output-reading call: Q in {0,1,2,Z,X} x DONE in {0,1}); programs = every forest of K statements over the feedback alphabet that binds, x 2 signal lists x 2 driver variants x 3 layouts; distinct_nontrivial = unique states".into(),
        assumptions: vec![
            "reference interpreter fed the same answers is the oracle; every explored transition compares the item just produced".into(),
            "state merging is sound if equal keys imply equal futures (DESIGN section 5.1); the thorough tier re-explores a slice without merging and requires its key pairs to be a subset".into(),
            "mismatches on programs whose loop/repeat bound is read from the device are attributed to C01 when the subject is equally wrong on the program with the literal bound".into(),
        ],
        required_witnesses: vec!["read_output_not_supplied_constructor_fails", "read_of_Z_or_X_is_an_error_item", "c_expansion", "loop_bound_computed", "while_ran_2plus", "shadow", "row_with_an_answer_of_the_wrong_length", "one_loaded_test_used_twice_with_different_drivers", "iterator_advanced_with_nth"],
        exhaustive_note: "every reachable state up to the depth bound for every case".into(),
        e1: true,
    };
    st.merge(many_outputs_cases(&deadline));
    st.merge(crate::props::c13::reuse_part(&deadline));
    st.merge(crate::props::c13::api_use_part(&deadline));
    finish(meta, st, started)
}
