//! C09 (parsing is total, error locations are renderable) and C12 (malformed programs are
//! rejected) — DESIGN §6. Shared machinery: depth-first walk of the prefix tree of token
//! strings with sound pruning through the H4 token meter (§5.2), all character strings up
//! to a length over a 16-character alphabet, and (C12) all single edits of valid programs.

use crate::engine::*;
use crate::model::*;
use crate::refgrammar;
use crate::space::*;
use crate::subject::*;
use digital_test_runner as dtr;
use digital_test_runner::verif_hooks as hooks;
use serde_json::json;
use std::collections::HashSet;
use std::time::Instant;

pub const SIGMA: [&str; 37] = [
    "\n", "0", "7", "65", "99999999999999999999", "0x8000000000000000", "X", "C", "Z", "a", "n", "(", ")", ",", ";", "=", "+", "-", "!", "~", "*", "<", "<<", "let", "loop", "repeat", "while", "end", "bits", "declare",
    "resetRandom", "random", "ite", "foo", "program", "$", "é",
];
/// extra reserved words / functions, substituted at shallow depth
pub const EXTRA: [&str; 5] = ["init", "memory", "def", "call", "signExt"];

const SEEDS: [&str; 16] = [
    "",
    "loop ( a , 2 )\n",
    "while ( a )\n",
    "loop ( a , 2 )\nloop ( n , 2 )\n",
    "loop ( a , 2 )\n0 0\n",
    "while ( a )\n0 0\nend",
    "loop ( a , 2 )\nend",
    "let a =",
    "repeat ( 2 )",
    "declare a =",
    "declare a = 1 ;\ndeclare",
    "bits (",
    "0 (",
    "( ite (",
    "( random (",
    "( a +",
];

const PARSE_BUDGET: u64 = 20_000;

#[derive(Clone, Copy, PartialEq, Eq)]
pub enum Mode {
    C09,
    C12,
}

pub struct ParseObs {
    pub ok: bool,
    pub eof_pulled: bool,
    pub caught: Option<Caught>,
    pub spans: Vec<(usize, usize)>,
    pub err: Option<digital_test_runner::errors::ParseError>,
}

pub fn parse_obs(text: &str) -> ParseObs {
    hooks::reset_token_meter();
    let r = parse(text, PARSE_BUDGET);
    let (_, eof) = hooks::token_meter();
    match r {
        Ok(Ok(_)) => ParseObs { ok: true, eof_pulled: eof, caught: None, spans: vec![], err: None },
        Ok(Err(e)) => ParseObs { ok: false, eof_pulled: eof, caught: None, spans: e.at.iter().map(|s| (s.start, s.end)).collect(), err: Some(e) },
        Err(c) => ParseObs { ok: false, eof_pulled: true, caught: Some(c), spans: vec![], err: None },
    }
}

/// C09 oracle on one text. Returns a violation (class, description).
fn c09_oracle(text: &str, o: ParseObs, rendered: &mut HashSet<u64>, st: &mut Stats) -> Option<(String, String)> {
    if let Some(c) = &o.caught {
        return Some(match c {
            Caught::Panic(s) => (format!("parser panic {}", crate::props::util::panic_site(s)), format!("from_str panicked: {s}")),
            Caught::Watchdog => ("parser diverges".into(), "from_str did not terminate within the step budget".into()),
        });
    }
    if o.ok {
        st.witness("accepted_text");
        return None;
    }
    st.witness("rejected_text");
    // an error without any location is not excluded by the property; only locations that are
    // attached must be usable
    if o.spans.is_empty() {
        st.witness("error_without_location");
    }
    for &(s, e) in &o.spans {
        if !(s <= e && e <= text.len()) {
            return Some(("location outside the text".into(), format!("error location {s}..{e} lies outside the text of {} bytes", text.len())));
        }
        if !text.is_char_boundary(s) || !text.is_char_boundary(e) {
            return Some(("location inside a character".into(), format!("error location {s}..{e} is not on character boundaries")));
        }
    }
    // rendering is ~100x the cost of parsing: once per distinct (message, span shape relative to the end)
    let e = o.err.unwrap();
    let key = hash64(&(format!("{:?}", e).split("at:").next().map(|s| s.to_string()), o.spans.iter().map(|(s, e)| (text.len() - e, e - s)).collect::<Vec<_>>(), text.len() < 8));
    if rendered.insert(key) {
        st.witness("diagnostic_rendered");
        let t = text.to_string();
        let r = guard(DEFAULT_BUDGET, move || {
            let rep = miette::Report::new(e).with_source_code(t);
            let mut out = String::new();
            let h = miette::GraphicalReportHandler::new_themed(miette::GraphicalTheme::unicode_nocolor());
            let _ = h.render_report(&mut out, rep.as_ref());
            out.len()
        });
        if let Err(c) = r {
            return Some(("diagnostic rendering panics".into(), format!("rendering the error as a diagnostic panicked: {c:?}")));
        }
    }
    None
}

fn c12_oracle(text: &str, o: &ParseObs, st: &mut Stats) -> Option<(String, String)> {
    match refgrammar::parse(text) {
        Err(why) => {
            st.nontrivial += 1;
            if o.ok {
                let class = if why.contains("inside a block") {
                    "accepted: text ends inside a block"
                } else if why.contains("entries for") {
                    "accepted: wrong row length"
                } else if why.contains("above 64") {
                    "accepted: bits width above 64"
                } else if why.contains("does not fit") {
                    "accepted: literal too large"
                } else if why.contains("declared twice") || why.contains("duplicate header") {
                    "accepted: duplicate name"
                } else if why.contains("line break") {
                    "accepted: header without line break"
                } else {
                    "accepted: malformed text"
                };
                return Some((class.into(), format!("the reference grammar rejects the text ({why}) but from_str accepted it")));
            }
            None
        }
        Ok(_) => {
            if !o.ok && o.caught.is_none() {
                // not a C12 violation (one-directional); recorded for calibration
                st.disagreements += 1;
            }
            None
        }
    }
}

fn parse_replay(text: &str, expected: &str, o_desc: &str) -> serde_json::Value {
    json!({"kind": "parse", "text": text, "expected": [expected], "observed": [o_desc]})
}

pub fn describe(text: &str) -> String {
    let o = parse_obs(text);
    match (&o.caught, o.ok) {
        (Some(c), _) => format!("{c:?}"),
        (None, true) => "accepted".into(),
        (None, false) => format!("rejected at {:?}: {}", o.spans, o.err.map(|e| miette_chain(&e)).unwrap_or_default()),
    }
}

thread_local! {
    static BASE_FILE: Option<dtr::dig::File> = {
        use crate::digxml::{self, Pin, PinKind};
        let doc = digxml::render(&[Pin::new(PinKind::In, "A"), Pin::new(PinKind::In, "B"), Pin::new(PinKind::Out, "Q")], &[digxml::TestDesc { label: Some("t".into()), source: "A B\n0 0\n".into(), extra: vec![] }, digxml::TestDesc { label: Some("t".into()), source: "A\n1\n".into(), extra: vec![] }, digxml::TestDesc { label: None, source: "B\n1\n".into(), extra: vec![] }, digxml::TestDesc { label: None, source: "A B\n0 0\n".into(), extra: vec![] }]);
        dtr::dig::File::parse(&doc).ok()
    };
}

/// The same text as the source of a test of a loaded .dig file (the public `source` field is set):
/// `load_test` parses it and attaches the source to the error; the error must be renderable too.
fn dig_route(text: &str, st: &mut Stats) -> Option<(String, String)> {
    let mut f = BASE_FILE.with(|b| b.clone())?;
    // the file holds four tests, two labelled alike and two without a label (which share the
    // placeholder name): the text is written into the later one of a pair
    let which = if text.len() % 2 == 0 { 1 } else { 3 };
    if f.test_cases.len() != 4 {
        return None;
    }
    f.test_cases[which].source = text.to_string();
    st.witness("text_parsed_as_the_source_of_a_test_of_a_dig_file");
    let t = text.to_string();
    let r = guard(DEFAULT_BUDGET, move || match f.load_test(which) {
        Err(dtr::errors::LoadTestError::ParseError(e)) => {
            let spans: Vec<(usize, usize)> = e.at.iter().map(|s| (s.start, s.end)).collect();
            for &(a, b) in &spans {
                if !(a <= b && b <= t.len()) || !t.is_char_boundary(a) || !t.is_char_boundary(b) {
                    return Some(format!("error location {a}..{b} of the error returned by load_test is not a range of the text on character boundaries"));
                }
            }
            let rep = miette::Report::new(e);
            let mut out = String::new();
            let h = miette::GraphicalReportHandler::new_themed(miette::GraphicalTheme::unicode_nocolor());
            if h.render_report(&mut out, rep.as_ref()).is_err() {
                return Some(format!("the error returned by load_test cannot be rendered against the text it was loaded from (rendering: {:?})", out.chars().take(300).collect::<String>()));
            }
            None
        }
        _ => None,
    });
    match r {
        Ok(None) => None,
        Ok(Some(m)) => Some(("location of a load_test error outside the text / inside a character".into(), m)),
        Err(c) => Some(("load_test or the rendering of its error panics".into(), format!("text as the source of a test of a .dig file: {c:?}"))),
    }
}

/// C12 through a file object: the test is loaded once (it parses), then the public source field is
/// overwritten with `text` and the test loaded again (also from a clone): is the text accepted?
fn accepted_after_edit_of_a_loaded_file(text: &str) -> bool {
    let Some(mut f) = BASE_FILE.with(|b| b.clone()) else { return false };
    let t = text.to_string();
    guard(DEFAULT_BUDGET, move || {
        let _ = f.load_test(0);
        let _ = f.load_test_by_name("t");
        f.test_cases[0].source = t;
        let g = f.clone();
        !matches!(f.load_test(0), Err(dtr::errors::LoadTestError::ParseError(_))) || !matches!(g.load_test_by_name("t"), Err(dtr::errors::LoadTestError::ParseError(_)))
    })
    .unwrap_or(false)
}

/// C12 through a document: the text is the dataString of the only test of a .dig document (carriage
/// returns written as character references, as an XML writer must); is the test loaded without a
/// parse error?
fn accepted_in_a_dig_document(text: &str) -> bool {
    use crate::digxml::{self, Pin, PinKind};
    let doc = digxml::render(&[Pin::new(PinKind::In, "A"), Pin::new(PinKind::In, "B"), Pin::new(PinKind::Out, "Q")], &[digxml::TestDesc { label: Some("t".into()), source: text.to_string(), extra: vec![] }]);
    guard(DEFAULT_BUDGET, move || match dtr::dig::File::parse(&doc) {
        Ok(f) => f.test_cases.len() == 1 && f.load_test(0).is_ok(),
        Err(_) => false,
    })
    .unwrap_or(false)
}

fn check_text(mode: Mode, text: &str, order: u64, rendered: &mut HashSet<u64>, st: &mut Stats) -> ParseObs {
    if mode == Mode::C12 && (order >> 60) >= 3 && (text.contains('\r') || !text.ends_with('\n') || order % 8 == 0) && !text.contains(|c: char| c.is_control() && c != '\r' && c != '\n' && c != '\t') && refgrammar::parse(text).is_err() {
        st.witness("malformed_text_as_the_data_string_of_a_dig_document");
        if accepted_in_a_dig_document(text) {
            st.violation("accepted: malformed text (as the dataString of a .dig document)", order, format!("text ({} bytes): {:?}\nthe reference grammar rejects the text; a .dig document holding it as the source of its test loads that test", text.len(), text), || json!({"kind": "parse", "text": text, "expected": ["rejected"], "observed": ["accepted through dig::File::parse + load_test"]}));
        }
    }
    if mode == Mode::C12 && (order >> 60) >= 3 && refgrammar::parse(text).is_err() {
        st.witness("malformed_text_written_into_a_loaded_file");
        if accepted_after_edit_of_a_loaded_file(text) {
            st.violation("accepted: malformed text (source field of a loaded file edited, test loaded again)", order, format!("text ({} bytes): {:?}\nthe reference grammar rejects the text; a file object whose test was loaded once and whose source field was then overwritten with it loads the test without a parse error", text.len(), text), || json!({"kind": "parse", "edited_file": true, "text": text, "expected": ["rejected"], "observed": ["accepted"]}));
        }
    }
    if mode == Mode::C09 && (order >> 60) >= 3 {
        if let Some((class, desc)) = dig_route(text, st) {
            st.violation(&class, order, format!("text ({} bytes): {:?}\n{desc}", text.len(), text), || json!({"kind": "parse", "via_dig": true, "text": text, "expected": ["load_test returns a test or an error with locations inside the text that can be rendered; never panics"], "observed": [desc.clone()]}));
        }
    }
    let o = parse_obs(text);
    st.evals += 1;
    let eof = o.eof_pulled;
    let ok = o.ok;
    let v = match mode {
        Mode::C09 => {
            let caught = o.caught.clone();
            let r = c09_oracle(text, o, rendered, st);
            if r.is_none() && !ok {
                st.nontrivial += 1;
            }
            (r, ParseObs { ok, eof_pulled: eof, caught, spans: vec![], err: None })
        }
        Mode::C12 => (c12_oracle(text, &o, st), ParseObs { ok, eof_pulled: eof, caught: o.caught.clone(), spans: vec![], err: None }),
    };
    if let Some((class, desc)) = v.0 {
        let d = describe(text);
        st.violation(&class, order, format!("text ({} bytes): {:?}\n{desc}", text.len(), text), || {
            parse_replay(text, if mode == Mode::C09 { "returns a test or an error with locations inside the text; never panics" } else { "rejected" }, &d)
        });
    }
    v.1
}

/// Depth-first walk below `prefix` (already rendered text, ending right after its last token).
fn walk(mode: Mode, text: &mut String, last_is_nl: bool, depth_left: usize, sigma: &[&str], order: u64, rendered: &mut HashSet<u64>, st: &mut Stats, deadline: &Deadline) {
    let o = check_text(mode, text, order, rendered, st);
    if depth_left == 0 {
        st.witness("leaf_at_depth_bound");
        return;
    }
    if !o.eof_pulled {
        // the parser never looked at the end of the text: every extension gives the same result
        st.witness("subtree_pruned_parser_did_not_reach_end");
        return;
    }
    if o.caught.is_some() {
        return;
    }
    if deadline.expired() {
        // the subtree below this node is not walked: say so (the run is then not exhaustive to its depth)
        let msg = "wall cap hit inside the token tree: some subtrees were not walked to the stated depth".to_string();
        if !st.caps.contains(&msg) {
            st.caps.push(msg);
        }
        return;
    }
    let len = text.len();
    for tok in sigma {
        let nl = *tok == "\n";
        if !(nl || last_is_nl || len == 0 || text.ends_with('\n')) {
            text.push(' ');
        }
        text.push_str(tok);
        walk(mode, text, nl, depth_left - 1, sigma, order + 1, rendered, st, deadline);
        text.truncate(len);
    }
}

const CHARS: [char; 16] = ['a', '0', 'x', '(', ')', ';', '=', '!', '<', '#', ' ', '\n', '\r', '\t', 'é', '€'];

fn valid_programs() -> ForestSpace {
    let a = || name("a");
    let l = |n: i64| Entry::Lit(n, Radix::Dec);
    let atoms = vec![
        Stmt::Row(vec![l(0), l(1)]),
        Stmt::Row(vec![Entry::Paren(bin(BinOp::Add, a(), lit(1))), Entry::X]),
        Stmt::Row(vec![Entry::Bits(2, a())]),
        Stmt::Row(vec![Entry::Bits(1, bin(BinOp::Shl, a(), lit(2))), Entry::Z]),
        Stmt::Row(vec![Entry::Paren(Expr::SignExt(Box::new(lit(4)), Box::new(a()))), Entry::Lit(0x1f, Radix::Hex)]),
        Stmt::Let("a".into(), lit(1)),
        Stmt::Let("a".into(), ite(a(), lit(1), un(UnOp::Neg, lit(2)))),
        Stmt::ResetRandom,
        Stmt::Declare("v".into(), random(lit(3))),
        Stmt::Repeat(lit(2), vec![l(0), Entry::C]),
    ];
    let blocks = vec![Block::Loop("a".into(), lit(2)), Block::While(bin(BinOp::Lt, a(), lit(2)))];
    ForestSpace::new(atoms, blocks, 2, 3)
}

const CONFUSION: [&[&str]; 6] = [
    &["loop", "while", "repeat", "end", "let", "declare", "bits"],
    &[";", ","],
    &["(", ")"],
    &["=", "<", "+"],
    &["random", "ite", "signExt", "foo"],
    // numbers: values that alias small ones after a narrowing cast (258 = 2 mod 256, 2^32+2, ...)
    &["2", "1", "65", "256", "257", "258", "320", "0x102", "0402", "4294967298", "99999999999999999999"],
];

/// Texts whose size or spelling lies outside the enumerated alphabets (see the label in `run`)
pub fn beyond_small_scope() -> Vec<String> {
    let mut out: Vec<String> = vec![];
    // (a) long names with multi-byte characters so that every byte offset 28..72 falls inside a character
    let mut names: Vec<String> = vec![];
    for (ch, width) in [('ä', 2usize), ('€', 3), ('😀', 4), ('٣', 2)] {
        for pad in 0..width {
            for total in [36usize, 44, 52, 80] {
                let mut n = "v".repeat(pad + 1);
                while n.len() < total {
                    n.push(ch);
                }
                names.push(n);
            }
        }
    }
    for n in &names {
        out.push(format!("{n} {n}\n0 0\n"));
        out.push(format!("A {n} B {n}\n0 0 0 0\n"));
        out.push(format!("A B\ndeclare {n} = 1;\ndeclare {n} = 2;\n0 0\n"));
        out.push(format!("A B\n{n} 0\n"));
        out.push(format!("A B\n0 {n}"));
        out.push(format!("A B\nlet x = {n}(1);\n0 0\n"));
        out.push(format!("A B\nlet x = {n}(1, 2"));
        out.push(format!("A B\nlet {n} = 1;\n({n}) 0\nlet {n} = ;\n"));
        out.push(format!("A B\nloop({n}, 2)\n({n}) 0\nend loop {n}\n"));
        out.push(format!("A B\n{n}"));
    }
    // (b) wide headers: every duplicated pair among 48 names, some among 70; and the valid wide headers
    for n in [33usize, 34, 35, 48, 64, 65, 70] {
        let header: Vec<String> = (0..n).map(|i| format!("S{i}")).collect();
        let row = vec!["0"; n].join(" ");
        out.push(format!("{}\n{row}\n", header.join(" ")));
        for i in 0..n {
            for j in (i + 1)..n {
                if n != 48 && (i + j) % 7 != 0 && !(j == n - 1 || i + 1 == j) {
                    continue;
                }
                let mut h = header.clone();
                h[j] = h[i].clone();
                out.push(format!("{}\n{row}\n", h.join(" ")));
            }
        }
    }
    // (b2) wide rows with a C, an X, a Z or a bits entry at columns around 64
    for n in [64usize, 65, 66, 70, 130] {
        let header: Vec<String> = (0..n).map(|i| format!("S{i}")).collect();
        for j in [0usize, 1, 62, 63, 64, 65, n - 1] {
            if j >= n {
                continue;
            }
            for what in ["C", "X", "Z", "c", "(1)"] {
                let row: Vec<&str> = (0..n).map(|i| if i == j { what } else { "0" }).collect();
                out.push(format!("{}\n{}\n{}\n", header.join(" "), row.join(" "), row.join(" ")));
            }
        }
        if n > 64 {
            let rest = vec!["C"; n - 64].join(" ");
            out.push(format!("{}\nbits(64, 5) {rest}\n", header.join(" ")));
            out.push(format!("{}\nbits(63, 5) C {}\n", header.join(" "), vec!["1"; n - 64].join(" ")));
        }
    }
    // (c) chains through all eight precedence levels, loosest first and tightest first
    let levels: [&[&str]; 8] = [&["=", "!="], &["<", ">", "<=", ">="], &["|"], &["^"], &["&"], &["<<", ">>"], &["+", "-"], &["*", "/", "%"]];
    let mut picks: Vec<Vec<&str>> = vec![vec![]];
    for l in levels.iter() {
        picks = picks.into_iter().flat_map(|p| l.iter().map(move |o| { let mut q = p.clone(); q.push(*o); q })).collect();
    }
    for p in &picks {
        for rev in [false, true] {
            let ops: Vec<&str> = if rev { p.iter().rev().copied().collect() } else { p.clone() };
            let mut e = String::from("1");
            for (i, o) in ops.iter().enumerate() {
                e.push_str(&format!(" {o} {}", i + 2));
            }
            out.push(format!("A B\nlet x = {e};\n(x) ({e})\n"));
        }
    }
    // (d) every built-in function (and some that do not exist) with 0..5 arguments of several shapes
    for f in ["ite", "random", "signExt", "Random", "ITE", "signext", "rand", "bits"] {
        for n in 0..=5usize {
            for shape in ["1", "a", "(1)", "0x1", "1+1", "ite(1,2,3)"] {
                let args = vec![shape; n].join(", ");
                out.push(format!("A B\nlet a = 1;\nlet x = {f}({args});\n0 0\n"));
                out.push(format!("A B\nlet a = 1;\n({f}({args})) bits(1, {f}({args}))\n"));
                out.push(format!("A B\nlet a = 1;\ndeclare V = {f}({args});\nloop(i, {f}({args}))\n0 0\nend loop\n"));
            }
        }
    }
    // (f) every row and repeat row of up to 4 entries over {0, C, (1), bits(0..3, n)} under headers of 1..3 names:
    // a row is as long as the columns its entries cover
    {
        let entries = ["0", "C", "(1)", "bits(0,1)", "bits(1,1)", "bits(2,1)", "bits(3,1)"];
        for ncols in 1..=3usize {
            let header: Vec<String> = (0..ncols).map(|i| format!("S{i}")).collect();
            for len in 1..=4usize {
                for code in 0..entries.len().pow(len as u32) {
                    let row: Vec<&str> = (0..len).map(|j| entries[(code / entries.len().pow(j as u32)) % entries.len()]).collect();
                    let row = row.join(" ");
                    out.push(format!("{}\n{row}\n", header.join(" ")));
                    out.push(format!("{}\nrepeat(2) {row}", header.join(" ")));
                    if len <= 3 {
                        out.push(format!("{}\nloop(i,2)\nrepeat(2) {row}\nend loop\n", header.join(" ")));
                    }
                }
            }
        }
    }
    // (e) literals around 2^63 and 2^64, also behind a unary minus
    for lit in ["9223372036854775807", "9223372036854775808", "9223372036854775809", "18446744073709551615", "18446744073709551616", "99999999999999999999999", "0x7FFFFFFFFFFFFFFF", "0x8000000000000001", "0xFFFFFFFFFFFFFFFF", "0x10000000000000000", "0b1111111111111111111111111111111111111111111111111111111111111111", "01777777777777777777777", "02000000000000000000000"] {
        for pre in ["", "-", "- ", "--", "~", "!", "-(", "0 - "] {
            let close = if pre.ends_with('(') { ")" } else { "" };
            out.push(format!("A B\nlet x = {pre}{lit}{close};\n0 0\n"));
            out.push(format!("A B\n({pre}{lit}{close}) 0\n"));
            out.push(format!("A B\n0 bits(1, {pre}{lit}{close})\n"));
            out.push(format!("A B\nrepeat({pre}{lit}{close}) 0 0\n"));
        }
        out.push(format!("A B\n{lit} 0\n"));
        out.push(format!("A B\nbits({lit}, 1) 0\n"));
    }
    // (h) literal-only expressions that cannot be evaluated, in every place an expression may stand
    for e in ["1/0", "8/(2-2)", "1 + 8 % !5", "7 % 0", "(0-1)/(1-1)", "1 << 64 / 0", "ite(1, 2, 3/0)", "ite(1/0, 2, 3)", "random(0)", "signExt(1/0, 1)", "-(1/0)", "~(5%0)"] {
        out.push(format!("A B\n({e}) 0\n"));
        out.push(format!("A B\n0 ({e})\n"));
        out.push(format!("A B\nbits(2, {e})\n"));
        out.push(format!("A B\nlet x = {e};\n0 0\n"));
        out.push(format!("A B\nloop(i, {e})\n0 0\nend loop\n"));
        out.push(format!("A B\nrepeat({e}) 0 0\n"));
        out.push(format!("A B\nwhile({e})\n0 0\nend while\n"));
        out.push(format!("A B\ndeclare V = {e};\n0 0\n"));
        out.push(format!("A B\nloop(i,2)\nrepeat(2) ({e}) (i)\nend loop\n"));
    }
    // (i) number literals running into decimal digits of other scripts (and other digit-like characters)
    for d in ['\u{ff12}', '\u{0663}', '\u{096a}', '\u{00b2}', '\u{2460}', '\u{1d7d8}'] {
        for lit in ["1", "12", "0", "0x1", "0b1", "07"] {
            out.push(format!("A B\n{lit}{d} 0\n"));
            out.push(format!("A B\n({lit}{d}) 0\n"));
            out.push(format!("A B\nbits({lit}{d}, 1) 0\n"));
            out.push(format!("A B\nrepeat({lit}{d}) 0 0\n"));
            out.push(format!("A B\nlet x = {lit}{d};\n0 0\n"));
            out.push(format!("A B\nloop(i, {lit}{d})\n0 0\nend loop\n"));
            out.push(format!("A B\ndeclare V = {lit}{d} + 1;\n0 0\n"));
            out.push(format!("A B\n0 {d}{lit}\n"));
        }
    }
    // (g) a header that is not followed by a line break, with carriage returns around it
    for h in ["A B", "A B\r", "\r\nA B", "\nA B", "A\rB", "A B \r", " A B", "A B\t", "A B # c", "\r\n\r\nA B\r", "A B\r\r", "A", "A\r"] {
        out.push(h.to_string());
    }
    // (f) every sequence of 2..=5 declarations over four names (in no particular alphabetical order):
    // a name declared twice anywhere in the sequence, also with a loop or other statements in between
    let dn = ["s", "c", "k", "a"];
    for len in 2..=5u32 {
        for code in 0..4u32.pow(len) {
            let seq: Vec<&str> = (0..len).map(|j| dn[(code / 4u32.pow(j) % 4) as usize]).collect();
            let decls: Vec<String> = seq.iter().enumerate().map(|(i, n)| format!("declare {n} = {i};")).collect();
            out.push(format!("A B\n{}\n0 0\n", decls.join("\n")));
            if len <= 3 {
                out.push(format!("A B\n{}\nloop(i,2)\n{}\n0 0\nend loop\n", decls[0], decls[1..].join("\n0 1\n")));
                out.push(format!("A B {}\n{}\n0 0 {}\n", seq[0], decls.join(" "), "X"));
            }
        }
    }
    out
}

pub fn run(mode: Mode, tier: Tier, seed: u64) -> i32 {
    let started = Instant::now();
    // the thorough tier of these two checks walks the token tree one level deeper than the others
    // enumerate: 40 minutes instead of 20
    let deadline = Deadline::new(if tier == Tier::Thorough { std::time::Duration::from_secs(40 * 60) } else { tier.wall_cap() });
    let id: &'static str = if mode == Mode::C09 { "C09" } else { "C12" };
    let mut total = Stats::default();

    // ---- character strings ----------------------------------------------------------
    let l = tier.pick(6usize, 7usize);
    let chars2: [char; 16] = ['a', '0', ' ', '\n', '\u{a0}', '\u{b}', '\u{85}', '\u{2028}', '\u{3000}', '\u{c}', '\r', '\t', '#', '(', ';', '\u{1680}'];
    for (what, prefix, l, alphabet) in [
        ("whole text", "", l, &CHARS),
        ("body after the header 'A B'", "A B\n", l, &CHARS),
        ("text after a byte order mark", "\u{feff}", l - 1, &CHARS),
        ("body after a non-ASCII header", "Zähler Ü\n", l - 1, &CHARS),
        ("whole text over an alphabet of Unicode spaces and control characters", "", l - 1, &chars2),
    ] {
        let n: u64 = (0..=l as u32).map(|k| 16u64.pow(k)).sum();
        let label = format!("all strings of length <= {l} over 16 characters as {what}");
        let st = par_range(&label, n, &deadline, |mut idx, st| {
            // decode: strings ordered by length then lexicographically
            let mut len = 0;
            while idx >= 16u64.pow(len) {
                idx -= 16u64.pow(len);
                len += 1;
            }
            let mut s = String::from(prefix);
            for _ in 0..len {
                s.push(alphabet[(idx % 16) as usize]);
                idx /= 16;
            }
            thread_local! { static RENDERED: std::cell::RefCell<HashSet<u64>> = std::cell::RefCell::new(HashSet::new()); }
            RENDERED.with(|r| {
                check_text(mode, &s, (1 << 60) + len as u64, &mut r.borrow_mut(), st);
            });
            if s.chars().any(|c| !c.is_ascii()) {
                st.witness("text_with_multibyte_characters");
            }
        });
        total.merge(st);
    }

    // ---- every statement start followed by every short character string -------------------
    // (the token tree puts exactly one blank between tokens and nothing in front of a line end; what
    // follows a statement the parser has stopped reading at is only reached by character strings)
    {
        let starts: Vec<&str> = vec![
            "repeat(2)", "repeat(2) 0", "repeat (2", "loop(i,2)", "loop(i,2", "loop(i", "end loop", "end", "end while", "while(1)", "while(1", "let x = 1;", "let x = 1", "let x =", "let", "declare V = 1;", "declare V = 1", "declare",
            "resetRandom;", "resetRandom", "bits(1,1)", "bits(1,1", "bits(1", "bits(", "0 0", "0", "(1) (", "(1", "ite(1,2", "random(", "signExt(1", "program", "program(", "program(1", "program(1)", "program (", "memory", "memory x(", "init", "init x = ", "def f(", "call f(", "C X", "Z z", "x", "#",
        ];
        let l2 = tier.pick(3usize, 4usize);
        let per: u64 = (0..=l2 as u32).map(|k| 16u64.pow(k)).sum();
        let st = par_range(&format!("every statement start of a list of {} (complete, truncated, unsupported) after the header 'A B', followed by every string of length <= {l2} over 16 characters", starts.len()), starts.len() as u64 * per, &deadline, |u, st| {
            let start = starts[(u / per) as usize];
            let mut idx = u % per;
            let mut len = 0;
            while idx >= 16u64.pow(len) {
                idx -= 16u64.pow(len);
                len += 1;
            }
            let mut s = format!("A B\n{start}");
            for _ in 0..len {
                s.push(CHARS[(idx % 16) as usize]);
                idx /= 16;
            }
            thread_local! { static RENDERED3: std::cell::RefCell<HashSet<u64>> = std::cell::RefCell::new(HashSet::new()); }
            RENDERED3.with(|r| {
                check_text(mode, &s, (4 << 60) + u, &mut r.borrow_mut(), st);
            });
            st.witness("statement_start_followed_by_a_character_string");
        });
        total.merge(st);
    }

    // ---- sizes and spellings beyond the enumerated alphabets ----------------------------
    {
        let texts = beyond_small_scope();
        let st = par_range("texts beyond the small scope: names of 30..80 bytes with multi-byte characters at every offset in every error that quotes a name; headers of up to 70 names with every duplicated pair; chains through all eight precedence levels; every built-in function with 0..5 arguments of every shape; literals around 2^63 and 2^64 behind a unary minus", texts.len() as u64, &deadline, |idx, st| {
            thread_local! { static RENDERED2: std::cell::RefCell<HashSet<u64>> = std::cell::RefCell::new(HashSet::new()); }
            RENDERED2.with(|r| {
                check_text(mode, &texts[idx as usize], (3 << 60) + idx, &mut r.borrow_mut(), st);
            });
            st.witness("text_beyond_the_small_scope");
        });
        total.merge(st);
    }

    // ---- single edits of valid programs (C12 only) ------------------------------------
    if mode == Mode::C12 {
        let space = valid_programs();
        for k in 1..=3usize {
            let n = space.count(k);
            let label = format!("single edits (delete / duplicate / confusion-class replacement of each token, truncation at every byte) of all {n} valid programs with {k} statements, each ended in 5 ways (nothing, newline, blank line, comment line, whitespace line)");
            let st = par_range(&label, n, &deadline, |idx, st| {
                let prog = Program { header: vec!["A".into(), "B".into()], body: space.unrank(k, idx) };
                let ls = lines(&prog);
                let base = render(&ls);
                if !refgrammar::accepts(&base) {
                    // e.g. the same name declared twice: not a valid base program
                    st.out_of_scope += 1;
                    return;
                }
                let mut rendered = HashSet::new();
                // the base itself must be accepted by the subject for the edits to mean anything
                let ob = parse_obs(&base);
                if !ob.ok {
                    st.disagreements += 1;
                }
                // token-level edits
                let flat: Vec<(usize, usize)> = ls.iter().enumerate().flat_map(|(li, l)| (0..l.toks.len()).map(move |ti| (li, ti))).collect();
                let mut variants: Vec<String> = vec![];
                for &(li, ti) in &flat {
                    let mut del = ls.clone();
                    del[li].toks.remove(ti);
                    variants.push(render(&del));
                    let mut dup = ls.clone();
                    let t = dup[li].toks[ti].clone();
                    dup[li].toks.insert(ti, t);
                    variants.push(render(&dup));
                    let tok = ls[li].toks[ti].clone();
                    for class in CONFUSION {
                        if class.contains(&tok.as_str()) {
                            for alt in class.iter() {
                                if *alt != tok {
                                    let mut rep = ls.clone();
                                    rep[li].toks[ti] = alt.to_string();
                                    variants.push(render(&rep));
                                }
                            }
                        }
                    }
                }
                // deleting a whole line (e.g. the line that closes a block), duplicating one
                for li in 0..ls.len() {
                    let mut del = ls.clone();
                    del.remove(li);
                    variants.push(render(&del));
                    let mut dup = ls.clone();
                    let l = dup[li].clone();
                    dup.insert(li, l);
                    variants.push(render(&dup));
                }
                // header edits: duplicated name, missing line break
                variants.push(base.replacen("A B\n", "A A\n", 1));
                variants.push(base.replacen("A B\n", "A B ", 1));
                // truncation at every byte
                for cut in 0..base.len() {
                    if base.is_char_boundary(cut) {
                        variants.push(base[..cut].to_string());
                    }
                }
                for v in variants {
                    for ending in ["", "\n", "\n\n", "\n# c\n", "\n \t\n"] {
                        let t = format!("{}{ending}", v.trim_end_matches('\n'));
                        let before = st.nontrivial;
                        check_text(mode, &t, (2 << 60) + idx, &mut rendered, st);
                        if st.nontrivial > before {
                            st.witness("grammar_breaking_edit");
                            if t.len() < base.len() && base.starts_with(&t) {
                                st.witness("truncated_program_rejected_by_reference");
                            }
                        } else {
                            st.witness("edit_leaves_text_valid");
                        }
                    }
                }
                if idx == 7 {
                    st.sample(|| json!({"valid_program": base, "edits": "delete/duplicate/replace each token, delete/duplicate each line, truncate at each byte; each with and without final newline"}));
                }
            });
            total.merge(st);
        }
    }
    // ---- token prefix tree ----------------------------------------------------------
    let headers: Vec<(&str, usize, usize)> = match tier {
        // (header, depth below the empty body, depth below each seed)
        Tier::Quick => vec![("A B", 7, 5), ("A", 6, 4), ("A B Q", 6, 4)],
        // the last entry goes one level deeper below the empty body: if the wall cap stops it, the run
        // reports the cap (caps_hit) and is exhaustive only to the depths above
        Tier::Thorough => vec![("A B", 8, 6), ("A", 7, 5), ("A B Q", 7, 5), ("A B", 9, 0)],
    };
    for (hdr, depth0, depth_seed) in &headers {
        // unit of work: (seed, first token); the subtree below is walked sequentially
        let units: Vec<(usize, usize, usize)> =
            (0..SEEDS.len()).flat_map(|s| (0..SIGMA.len() + EXTRA.len()).flat_map(move |t| (0..SIGMA.len()).map(move |t2| (s, t, t2)))).collect();
        let label = format!("token tree: header '{hdr}', {} tokens, depth {depth0} below the empty body and {depth_seed} below each of {} seed prefixes (pruned where the parser did not reach the end of the text)", SIGMA.len(), SEEDS.len() - 1);
        let st = par_range(&label, units.len() as u64, &deadline, |u, st| {
            let (s, t, t2) = units[u as usize];
            let depth = if s == 0 { *depth0 } else { *depth_seed };
            if depth == 0 {
                return;
            }
            let first = if t < SIGMA.len() { SIGMA[t] } else { EXTRA[t - SIGMA.len()] };
            let mut text = format!("{hdr}\n{}", SEEDS[s]);
            let mut rendered = HashSet::new();
            if u == 0 {
                // the roots themselves
                for sd in SEEDS {
                    let t = format!("{hdr}\n{sd}");
                    check_text(mode, &t, 0, &mut rendered, st);
                }
            }
            if !(first == "\n" || text.ends_with('\n')) {
                text.push(' ');
            }
            text.push_str(first);
            // the extra reserved words only replace their class representative at shallow depth
            let d = if t < SIGMA.len() { depth - 1 } else { (depth - 1).min(2) };
            let before = st.evals;
            let order = (s as u64) << 40 | (t as u64) << 32 | (t2 as u64) << 24;
            // the node of the first token is checked by the unit with t2 == 0; every unit needs its
            // parse result to know whether the subtree exists
            let o1 = if t2 == 0 { check_text(mode, &text, order, &mut rendered, st) } else { parse_obs(&text) };
            if d == 0 || !o1.eof_pulled || o1.caught.is_some() {
                if t2 == 0 {
                    st.witness(if d == 0 { "leaf_at_depth_bound" } else { "subtree_pruned_parser_did_not_reach_end" });
                }
                st.space(&format!("token tree nodes (texts), header '{hdr}'"), st.evals - before);
                return;
            }
            let second = SIGMA[t2];
            if !(second == "\n" || first == "\n") {
                text.push(' ');
            }
            text.push_str(second);
            walk(mode, &mut text, second == "\n", d - 1, &SIGMA, order + 2, &mut rendered, st, &deadline);
            let nodes = st.evals - before;
            st.space(&format!("token tree nodes (texts), header '{hdr}'"), nodes);
            st.max_depth = st.max_depth.max(depth as u64);
        });
        total.merge(st);
    }

    total.sample(|| json!({"token_tree_node": "A B\nloop ( a , 2 )\n0 0\nend loop", "note": "every node of the prefix tree is one text handed to from_str"}));

    let required: Vec<&'static str> = match mode {
        Mode::C09 => vec!["accepted_text", "rejected_text", "diagnostic_rendered", "leaf_at_depth_bound", "subtree_pruned_parser_did_not_reach_end", "text_with_multibyte_characters", "text_beyond_the_small_scope", "statement_start_followed_by_a_character_string", "text_parsed_as_the_source_of_a_test_of_a_dig_file"],
        Mode::C12 => vec!["grammar_breaking_edit", "truncated_program_rejected_by_reference", "edit_leaves_text_valid", "leaf_at_depth_bound", "subtree_pruned_parser_did_not_reach_end", "text_beyond_the_small_scope", "malformed_text_written_into_a_loaded_file"],
    };
    let meta = CheckMeta {
        id,
        tier,
        seed,
        rule: match mode {
            Mode::C09 => "every node of the token prefix tree (one text per node; children only where the parser consumed the end-of-input token, which is sound because the result is a function of the tokens pulled) and every character string up to the stated length; a text is non-trivial if it is rejected (an error with locations that must be checked); every text is distinct by construction".into(),
            Mode::C12 => "same token tree and character strings, plus every single edit of every valid program up to 3 statements; a text is non-trivial if the independent reference grammar rejects it (then the subject must return Err)".into(),
        },
        assumptions: match mode {
            Mode::C09 => vec!["texts are bounded in nesting depth and length; native stack exhaustion is outside the property".into(), "rendering is exercised once per distinct (error, span shape) per work unit".into()],
            Mode::C12 => vec!["reference grammar refgrammar.rs decides what is malformed; one direction only (reference rejects => subject must reject); the other direction is counted as reference_disagreements_not_violations".into()],
        },
        required_witnesses: required,
        exhaustive_note: "complete to the stated depth / length / edit distance 1".into(),
        e1: false,
    };
    finish(meta, total, started)
}

pub fn replay_parse(j: &serde_json::Value) -> Vec<String> {
    if j["edited_file"].as_bool().unwrap_or(false) {
        return vec![if accepted_after_edit_of_a_loaded_file(j["text"].as_str().unwrap_or("")) { "accepted".into() } else { "rejected".into() }];
    }
    if j["via_dig"].as_bool().unwrap_or(false) {
        let mut st = Stats::default();
        return vec![dig_route(j["text"].as_str().unwrap_or(""), &mut st).map(|x| x.1).unwrap_or("load_test returns an error that can be rendered".into())];
    }
    vec![describe(j["text"].as_str().unwrap_or(""))]
}
