//! C03 — outputs are attributed to the right signal; verdicts follow the X/Z rules
//! (DESIGN §6/C03). Explicit-state exploration (E1): every signal-list order x every fixed
//! output layout (ordered subset of the output-capable signals) x every answer per call.

use crate::compare::verdict;
use crate::e1::*;
use crate::engine::*;
use crate::model::*;
use crate::refsem::*;
use crate::subject::*;
use serde_json::json;
use std::sync::Arc;
use std::time::Instant;

fn oracle() -> Oracle {
    Arc::new(|seen: &Seen<'_>, st: &mut Stats| {
        let o = seen.obs;
        let fail = |m: String| Some((m.split(':').next().unwrap_or("?").to_string(), m));
        let k = seen.item?;
        let Some(ObsItem::Row(row)) = o.items.get(k) else {
            return match (seen.reference.items.get(k), o.items.get(k)) {
                (Some(RefItem::Row(_)), Some(other)) => fail(format!("item kind: item {k} should be a row, got {}", other.brief())),
                _ => None,
            };
        };
        if row.outputs.is_empty() {
            return None; // mid-clock row
        }
        let Some(call) = o.calls_after.get(k + 1).and_then(|n| o.log.get(n - 1)) else { return None };
        let Some(answer) = &call.answer else { return None };
        let outs: Vec<&Sig> = seen.case.sigs.iter().filter(|s| s.is_out()).collect();
        // a row must not be returned where the reference has an error item (a virtual signal that
        // cannot be evaluated over this call's answer)
        if matches!(seen.reference.items.get(k), Some(RefItem::VirtErr(_))) {
            return fail(format!("item kind: item {k} is returned as a row although a declared signal cannot be evaluated over the answer of this call {:?}", answer));
        }
        let nvirt = row.outputs.iter().filter(|e| e.is_virtual).count();
        if row.outputs.len() != outs.len() + nvirt {
            return fail(format!("outputs length: row {k} has {} output entries for {} output-capable signals", row.outputs.len(), outs.len()));
        }
        let mut failing = vec![];
        for (j, (e, s)) in row.outputs.iter().filter(|e| !e.is_virtual).zip(&outs).enumerate() {
            if e.name != s.name {
                return fail(format!("outputs order: row {k} entry {j} is for {}, expected {} (signal-list order)", e.name, s.name));
            }
            let supplied = answer.iter().find(|(n, _)| n == &s.name).map(|x| x.1);
            let want = supplied.unwrap_or(V::X);
            if e.output != want {
                return fail(format!("attribution: row {k} reports {} = {} but in the call made for this row the driver {}", s.name, e.output.show(), match supplied {
                    Some(v) => format!("returned {} for it", v.show()),
                    None => "did not supply it (must be X)".into(),
                }));
            }
            if supplied.is_none() {
                st.witness("unsupplied_output_is_X");
            }
            let pass = verdict(e.expected, e.output);
            if e.check != pass {
                return fail(format!("check(): entry {} expected {} output {} gives check() = {}", s.name, e.expected.show(), e.output.show(), e.check));
            }
            if e.value_check != (pass, pass) {
                return fail(format!("check() of the values: OutputValue::check / ExpectedValue::check give {:?} for expected {} output {}", e.value_check, e.expected.show(), e.output.show()));
            }
            if e.is_checked != (e.expected != V::X) {
                return fail(format!("is_checked(): entry {} with expected {} gives {}", s.name, e.expected.show(), e.is_checked));
            }
            if !pass {
                failing.push(s.name.clone());
            }
            st.witness(match (e.expected, e.output) {
                (V::X, _) => "expected_X",
                (V::Z, V::Z) => "expected_Z_output_Z",
                (V::Z, _) => "expected_Z_output_other",
                (V::Num(_), V::Num(_)) => "number_vs_number",
                (V::Num(_), _) => "number_vs_Z_or_X",
            });
        }
        let got: Vec<String> = row.outputs.iter().filter(|e| e.failing && !e.is_virtual).map(|e| e.name.clone()).collect();
        if got != failing {
            return fail(format!("failing_outputs(): row {k} lists {got:?}, the entries that do not pass are {failing:?}"));
        }
        None
    })
}

fn permutations3() -> Vec<[usize; 3]> {
    vec![[0, 1, 2], [0, 2, 1], [1, 0, 2], [1, 2, 0], [2, 0, 1], [2, 1, 0]]
}

/// Entries and rows built by the caller through the public fields (as a front end does that edits
/// the expected value or assembles its own report): the verdict rules hold for every combination of
/// width, output and expected value, whether or not the numbers fit the width.
/// Replay of one hand-built entry: the same index through the same code; the violation's message, or "as the rules say"
pub fn replay_entry(j: &serde_json::Value) -> Vec<String> {
    let want = j["index"].as_u64().unwrap_or(0);
    let st = hand_built_range(&Deadline::new(std::time::Duration::from_secs(60)), want, want + 1);
    let v: Vec<String> = st.violations.iter().map(|v| v.1.summary.lines().last().unwrap_or("").to_string()).collect();
    if v.is_empty() {
        vec!["as the rules say".into()]
    } else {
        v
    }
}

pub fn hand_built_part(deadline: &Deadline) -> Stats {
    hand_built_range(deadline, 0, u64::MAX)
}

fn hand_built_range(deadline: &Deadline, from: u64, to: u64) -> Stats {
    use digital_test_runner as dtr;
    let widths = [1usize, 2, 4, 8, 16, 32, 63, 64];
    let nums = [0i64, 1, 2, 3, 5, 15, 16, 17, 255, 256, -1, -2, -16, i64::MAX, i64::MIN, 1 << 32, (1 << 32) + 5];
    let mut outs: Vec<dtr::OutputValue> = vec![dtr::OutputValue::Z, dtr::OutputValue::X];
    outs.extend(nums.iter().map(|n| dtr::OutputValue::Value(*n)));
    let mut exps: Vec<dtr::ExpectedValue> = vec![dtr::ExpectedValue::Z, dtr::ExpectedValue::X];
    exps.extend(nums.iter().map(|n| dtr::ExpectedValue::Value(*n)));
    let truth = |o: dtr::OutputValue, e: dtr::ExpectedValue| match (e, o) {
        (dtr::ExpectedValue::X, _) => true,
        (dtr::ExpectedValue::Z, dtr::OutputValue::Z) => true,
        (dtr::ExpectedValue::Value(a), dtr::OutputValue::Value(b)) => a == b,
        _ => false,
    };
    let n = (widths.len() * 3 * outs.len() * exps.len()) as u64;
    par_range("entries built through the public fields: 8 widths x {output, bidirectional, declared} x 19 outputs x 19 expected values, alone and as the middle entry of a row", n, deadline, |u, st| {
        if u < from || u >= to {
            return;
        }
        let mut c = u as usize;
        let e = exps[c % exps.len()];
        c /= exps.len();
        let o = outs[c % outs.len()];
        c /= outs.len();
        let kind = c % 3;
        c /= 3;
        let bits = widths[c];
        let sig = match kind {
            0 => dtr::Signal::output("Q", bits),
            1 => dtr::Signal::bidirectional("Q", bits, dtr::InputValue::Z),
            _ => {
                // a declared signal, taken from the public signal list of a loaded test
                let tc: Result<dtr::TestCase, _> = "A V\ndeclare V = 1;\n0 1\n".parse::<dtr::ParsedTestCase>().map_err(|_| ()).and_then(|p| p.with_signals(vec![dtr::Signal::input("A", 1, 0)]).map_err(|_| ()));
                match tc {
                    Ok(tc) => match tc.signals.iter().find(|s| s.name == "V") {
                        Some(s) => s.clone(),
                        None => return,
                    },
                    Err(_) => return,
                }
            }
        };
        let other = dtr::Signal::output("R", 4);
        st.evals += 1;
        st.nontrivial += 1;
        let got = guard(DEFAULT_BUDGET, || {
            let entry = dtr::OutputResultEntry { signal: &sig, output: o, expected: e };
            let row = dtr::DataRow {
                inputs: vec![],
                outputs: vec![dtr::OutputResultEntry { signal: &other, output: dtr::OutputValue::Value(3), expected: dtr::ExpectedValue::Value(3) }, entry.clone(), dtr::OutputResultEntry { signal: &other, output: dtr::OutputValue::Value(3), expected: dtr::ExpectedValue::Value(4) }],
                line: 1,
            };
            let failing: Vec<String> = row.failing_outputs().map(|f| format!("{}:{}/{}", f.signal.name, f.output, f.expected)).collect();
            (entry.check(), entry.is_checked(), e.check(o), o.check(e), failing)
        });
        let want = truth(o, e);
        let mut want_failing = vec![];
        if !want {
            want_failing.push(format!("{}:{o}/{e}", sig.name));
        }
        want_failing.push("R:3/4".to_string());
        st.witness(if want { "hand_built_entry_passes" } else { "hand_built_entry_fails" });
        let bad = match &got {
            Err(c) => Some(("panic".to_string(), format!("{c:?}"))),
            Ok((chk, is_chk, ec, oc, failing)) => {
                if *chk != want {
                    Some(("check()".to_string(), format!("check() is {chk}, the rules give {want}")))
                } else if *is_chk != (e != dtr::ExpectedValue::X) {
                    Some(("is_checked()".to_string(), format!("is_checked() is {is_chk}")))
                } else if *ec != want || *oc != want {
                    Some(("ExpectedValue::check / OutputValue::check".to_string(), format!("ExpectedValue::check gives {ec}, OutputValue::check gives {oc}, the rules give {want}")))
                } else if *failing != want_failing {
                    Some(("failing_outputs()".to_string(), format!("failing_outputs() is {failing:?}, expected {want_failing:?}")))
                } else {
                    None
                }
            }
        };
        if let Some((class, d)) = bad {
            let desc = format!("an OutputResultEntry built through its public fields: signal {} ({} bits), output {o}, expected {e}\n{d}", ["output Q", "bidirectional Q", "declared V"][kind], sig.bits);
            st.violation(&format!("hand-built entry: {class}"), u, desc.clone(), || json!({"kind": "entry", "index": u, "text": desc, "expected": [format!("check() = {want}")], "observed": [d.clone()]}));
        }
    })
}

pub fn run(tier: Tier, seed: u64) -> i32 {
    let started = Instant::now();
    let deadline = Deadline::new(tier.wall_cap());
    let outs = [Sig::out("Q", 4), Sig::out("R", 64), Sig::bidir("D", 4, V::Z)];
    let full: Vec<V> = vec![V::Num(0), V::Num(5), V::Num(15), V::Num(-1), V::Num(i64::MAX), V::Num(i64::MIN), V::Z, V::X];
    let small: Vec<V> = vec![V::Num(0), V::Num(-1), V::Z, V::X];
    // expected values cycle through all six kinds in every output column
    let exp = |j: usize| -> Entry {
        match j % 6 {
            0 => Entry::X,
            1 => Entry::Z,
            2 => Entry::Lit(0, Radix::Dec),
            3 => Entry::Lit(5, Radix::Dec),
            4 => Entry::Paren(bin(BinOp::Sub, lit(0), lit(1))),
            _ => Entry::Lit(i64::MAX, Radix::Hex),
        }
    };
    let mut body = vec![];
    for j in 0..6 {
        body.push(Stmt::Row(vec![Entry::Lit(j as i64 % 2, Radix::Dec), exp(j), exp(j + 2), exp(j + 4)]));
    }
    // a set-up row that expects nothing at all: what the device shows is reported all the same
    body.insert(2, Stmt::Row(vec![Entry::Lit(1, Radix::Dec), Entry::X, Entry::X, Entry::X]));
    body.push(Stmt::Row(vec![Entry::C, Entry::Lit(15, Radix::Dec), Entry::Z, Entry::X]));
    let prog = Program { header: vec!["A".into(), "Q".into(), "R".into(), "D_out".into()], body };
    let mut cases = vec![];
    for (oi, perm) in permutations3().iter().enumerate() {
        // signal list: the input A at position oi % 4, the outputs in this order
        let mut sigs: Vec<Sig> = perm.iter().map(|&i| outs[i].clone()).collect();
        sigs.insert(oi % 4, Sig::inp("A", 1, 0));
        for layout in ordered_selections(3, 3) {
            let names: Vec<String> = layout.iter().map(|&i| outs[i].name.clone()).collect();
            let vals = if layout.len() == 3 { tier.pick(&small, &full) } else { &full };
            let mut menu = vec![];
            let n = vals.len().pow(layout.len() as u32);
            for mut code in 0..n {
                let mut a: Answer = vec![];
                for nm in &names {
                    a.push((nm.clone(), vals[code % vals.len()]));
                    code /= vals.len();
                }
                menu.push(MenuItem::ans(a));
            }
            for ov in [true, false] {
                if !ov && (layout.len() == 3 || oi > 1) {
                    continue;
                }
                cases.push(Case::new(&format!("signal order {:?}, layout {names:?}, {}", sigs.iter().map(|s| s.name.as_str()).collect::<Vec<_>>(), if ov { "Ov" } else { "Fw" }), prog.clone(), sigs.clone(), ov, menu.clone(), menu.clone(), 12));
            }
        }
    }
    // variables named like outputs must not leak into the reported output values
    for (vi, wrap) in ["let Q = 7; let R = 8;", "rows inside loop(Q,2)"].iter().enumerate() {
        let mut body2 = vec![];
        if vi == 0 {
            body2.push(Stmt::Let("Q".into(), lit(7)));
            body2.push(Stmt::Let("R".into(), lit(8)));
            body2.extend(prog.body.iter().take(3).cloned());
        } else {
            body2.push(Stmt::Loop("Q".into(), lit(2), prog.body.iter().take(2).cloned().collect()));
        }
        let p2 = Program { header: prog.header.clone(), body: body2 };
        let sigs = vec![Sig::inp("A", 1, 0), outs[0].clone(), outs[1].clone(), outs[2].clone()];
        let names = ["R".to_string(), "Q".to_string()];
        let mut menu = vec![];
        for a in &full {
            for b in [V::Num(3), V::Z] {
                menu.push(MenuItem::ans(vec![(names[0].clone(), *a), (names[1].clone(), b)]));
            }
        }
        cases.push(Case::new(&format!("variables named like outputs ({wrap})"), p2, sigs, true, menu.clone(), menu, 12));
    }
    // the program reads an output, but only in its last row (and in a loop that never runs): a Z or X
    // the device shows for it on earlier rows is a value to report like any other
    {
        let sigs = vec![Sig::inp("A", 4, 0), outs[0].clone(), outs[1].clone()];
        let p5 = Program {
            header: vec!["A".into(), "Q".into(), "R".into()],
            body: {
                let mut b: Vec<Stmt> = (0..3).map(|j| Stmt::Row(vec![Entry::Lit(j % 2, Radix::Dec), exp(j as usize), exp(j as usize + 3)])).collect();
                b.push(Stmt::Loop("k".into(), lit(0), vec![Stmt::Row(vec![Entry::Paren(name("R")), Entry::X, Entry::X])]));
                b.push(Stmt::Row(vec![Entry::Paren(name("Q")), Entry::X, Entry::Z]));
                b
            },
        };
        let mut menu = vec![];
        for a in [V::Num(1), V::Num(2), V::Z, V::X] {
            for b in [V::Num(5), V::Z, V::X] {
                menu.push(MenuItem::ans(vec![("Q".into(), a), ("R".into(), b)]));
            }
        }
        cases.push(Case::new("an output read only by the last row", p5, sigs, true, menu.clone(), menu, 12));
    }
    // a declared signal that cannot be evaluated for some answers; the caller carries on: every
    // row that IS returned still reports what the driver returned in the call made for it
    {
        let sigs = vec![Sig::inp("A", 1, 0), outs[0].clone(), outs[1].clone()];
        let p4 = Program {
            header: vec!["A".into(), "Q".into(), "R".into()],
            body: {
                let mut b = vec![Stmt::Declare("V".into(), bin(BinOp::Div, lit(8), name("Q")))];
                b.extend((0..4).map(|j| Stmt::Row(vec![Entry::Lit(j % 2, Radix::Dec), exp(j as usize), exp(j as usize + 3)])));
                b
            },
        };
        let mut menu = vec![];
        for a in [V::Num(0), V::Num(1), V::Num(2), V::Z, V::X] {
            for b in [V::Num(5), V::Z] {
                menu.push(MenuItem::ans(vec![("Q".into(), a), ("R".into(), b)]));
            }
        }
        for ov in [true, false] {
            let mut c = Case::new("a virtual signal that fails for some answers, caller carries on", p4.clone(), sigs.clone(), ov, menu.clone(), menu.clone(), 8);
            c.continue_after_call_errors = true;
            cases.push(c);
        }
        // the same test with a third output, under every layout that supplies Q (any order, any subset)
        let sigs3 = vec![Sig::inp("A", 1, 0), outs[0].clone(), outs[1].clone(), outs[2].clone()];
        let all3: Vec<String> = outs.iter().take(3).map(|s| s.name.clone()).collect();
        for layout in ordered_selections(3, 3) {
            let names: Vec<String> = layout.iter().map(|&i| all3[i].clone()).collect();
            if !names.contains(&"Q".to_string()) {
                continue;
            }
            let mut menu = vec![];
            for a in [V::Num(0), V::Num(1), V::Num(2), V::Z] {
                menu.push(MenuItem::ans(names.iter().enumerate().map(|(j, n)| (n.clone(), if n == "Q" { a } else { V::Num(5 + j as i64) })).collect()));
            }
            let mut c = Case::new(&format!("a virtual signal next to outputs the driver leaves out, layout {names:?}"), p4.clone(), sigs3.clone(), true, menu.clone(), menu, 8);
            c.continue_after_call_errors = true;
            cases.push(c);
        }
    }
    // the same row again and again (no input changes, no input column at all) against a device whose
    // outputs move on their own: every row reports what the driver returned in the call made for it
    {
        let sigs = vec![Sig::inp("A", 1, 0), outs[0].clone(), outs[1].clone()];
        for (what, header, rowf) in [("constant inputs", vec!["A", "Q", "R"], 3usize), ("no input column", vec!["Q", "R"], 2usize)] {
            let body: Vec<Stmt> = (0..4).map(|j| Stmt::Row(std::iter::repeat(Entry::Lit(1, Radix::Dec)).take(rowf - 2).chain([exp(j), exp(j + 2)]).collect())).collect();
            let pr = Program { header: header.iter().map(|s| s.to_string()).collect(), body: vec![Stmt::Repeat(lit(2), match &body[0] { Stmt::Row(es) => es.clone(), _ => vec![] }), body[1].clone(), body[2].clone(), body[3].clone()] };
            let mut menu = vec![];
            for a in [V::Num(0), V::Num(1), V::Num(2), V::Z] {
                for b in [V::Num(5), V::X] {
                    menu.push(MenuItem::ans(vec![("Q".into(), a), ("R".into(), b)]));
                }
            }
            for ov in [true, false] {
                cases.push(Case::new(&format!("repeated rows, {what}, device moves on its own ({})", if ov { "Ov" } else { "Fw" }), pr.clone(), sigs.clone(), ov, menu.clone(), menu.clone(), 8));
            }
        }
    }
    // two outputs whose names differ only in letter case, both supplied, in either order
    {
        let sigs = vec![Sig::inp("A", 1, 0), Sig::out("Q", 4), Sig::out("q", 4)];
        let pr = Program { header: vec!["A".into(), "Q".into(), "q".into()], body: (0..3).map(|j| Stmt::Row(vec![Entry::Lit(j % 2, Radix::Dec), exp(j as usize), exp(j as usize + 1)])).collect() };
        for order in 0..2 {
            let mut menu = vec![];
            for a in [V::Num(0), V::Num(5), V::Z] {
                for b in [V::Num(1), V::Num(9), V::X] {
                    let mut ans = vec![("Q".to_string(), a), ("q".to_string(), b)];
                    if order == 1 {
                        ans.reverse();
                    }
                    menu.push(MenuItem::ans(ans));
                }
            }
            cases.push(Case::new(&format!("outputs Q and q, driver order {order}"), pr.clone(), sigs.clone(), true, menu.clone(), menu, 6));
        }
    }
    // one-bit outputs: a number other than 0 and 1 is not a 1
    {
        let sigs = vec![Sig::inp("A", 1, 0), Sig::out("Q", 1), Sig::out("R", 1)];
        let pr = Program { header: vec!["A".into(), "Q".into(), "R".into()], body: (0..3).map(|j| Stmt::Row(vec![Entry::Lit(j % 2, Radix::Dec), [Entry::Lit(1, Radix::Dec), Entry::Lit(0, Radix::Dec), Entry::X][j as usize % 3].clone(), [Entry::Z, Entry::Lit(1, Radix::Dec), Entry::Lit(1, Radix::Dec)][j as usize % 3].clone()])).collect() };
        let mut menu = vec![];
        for a in [V::Num(0), V::Num(1), V::Num(2), V::Num(32), V::Num(255), V::Num(-1), V::Z, V::X] {
            for b in [V::Num(1), V::Num(-1), V::Num(0x80)] {
                menu.push(MenuItem::ans(vec![("Q".into(), a), ("R".into(), b)]));
            }
        }
        cases.push(Case::new("one-bit outputs, device values of every kind", pr, sigs, true, menu.clone(), menu, 6));
    }
    // wide interfaces: 16, 17, 20 and 40 outputs reported in list order, reversed, rotated, every other one
    for n in [16usize, 17, 20, 40] {
        let mut sigs = vec![Sig::inp("A", 1, 0)];
        sigs.extend((0..n).map(|i| Sig::out(&format!("O{i}"), 8)));
        let mut header = vec!["A".to_string()];
        header.extend((0..n).map(|i| format!("O{i}")));
        let row = |k: i64| Stmt::Row(std::iter::once(Entry::Lit(k % 2, Radix::Dec)).chain((0..n).map(|i| if (i as i64 + k) % 3 == 0 { Entry::X } else { Entry::Lit((i as i64 + k) % 7, Radix::Dec) })).collect());
        let pw = Program { header, body: vec![row(0), row(1)] };
        let orders: Vec<(&str, Vec<usize>)> = vec![("list order", (0..n).collect()), ("reversed", (0..n).rev().collect()), ("rotated by one", (0..n).map(|i| (i + 1) % n).collect()), ("every other one", (0..n).step_by(2).collect()), ("two neighbours swapped", { let mut v: Vec<usize> = (0..n).collect(); v.swap(n - 2, n - 1); v })];
        for (what, order) in orders {
            let menu: Vec<MenuItem> = [0i64, 1].iter().map(|k| MenuItem::ans(order.iter().map(|&i| (format!("O{i}"), V::Num((i as i64 + k) % 7))).collect())).collect();
            cases.push(Case::new(&format!("{n} outputs, {what}"), pw.clone(), sigs.clone(), true, menu.clone(), menu, 4));
        }
    }
    // a bidirectional D next to an output that is literally called D_out
    // (of another width, and of the same width)
    for dw in [8usize, 4] {
        let sigs = vec![Sig::bidir("D", 4, V::Num(1)), Sig::inp("A", 1, 0), Sig::out("D_out", dw)];
        let p3 = Program { header: vec!["A".into(), "D_out".into()], body: (0..3).map(|j| Stmt::Row(vec![Entry::Lit(j % 2, Radix::Dec), exp(j as usize + 2)])).collect() };
        for layout in ordered_selections(2, 2) {
            let names: Vec<String> = layout.iter().map(|&i| ["D", "D_out"][i].to_string()).collect();
            let mut menu = vec![];
            let n = full.len().pow(names.len() as u32);
            for mut code in 0..n {
                let mut a: Answer = vec![];
                for nm in &names {
                    a.push((nm.clone(), full[code % full.len()]));
                    code /= full.len();
                }
                menu.push(MenuItem::ans(a));
            }
            cases.push(Case::new(&format!("bidirectional D(4) and an output named D_out({dw}), layout {names:?}"), p3.clone(), sigs.clone(), true, menu.clone(), menu, 8));
        }
    }
    let ncases = cases.len();
    let res = explore(cases, oracle(), true, &deadline);
    let mut st = res.stats;
    st.nontrivial = st.states;
    st.sample(|| json!({"cases": ncases, "program": text(&prog), "answer_values_per_supplied_signal": "0 5 15 -1 MAX MIN Z X (0 -1 Z X for three-signal layouts in the quick tier)"}));
    let meta = CheckMeta {
        id: "C03",
        tier,
        seed,
        rule: "explicit-state BFS (stateright): 6 signal-list orders x 16 layouts (every ordered subset of the three output-capable signals Q(4), R(64), bidirectional D(4)) x per-call answers over the value menu; the state holds the latest answer, so the graph is layered with every pair of consecutive answers as a transition; seven source rows whose expected entries cycle through X, Z, 0, 5, -1, MAX in every column plus a clock row; distinct_nontrivial = unique states".into(),
        assumptions: vec![
            "oracle: the scripted driver's own record of what it returned for each signal in the call made for the row; X/Z truth table written from the property".into(),
            "the expected value itself is taken from the row (its reduction to the signal width is C07's)".into(),
        ],
        required_witnesses: vec!["unsupplied_output_is_X", "expected_X", "expected_Z_output_Z", "expected_Z_output_other", "number_vs_number", "number_vs_Z_or_X", "c_expansion", "one_loaded_test_used_twice_with_different_drivers", "iterator_advanced_with_nth", "hand_built_entry_passes", "hand_built_entry_fails"],
        exhaustive_note: "every reachable state for every case; thorough uses the full 8-value menu for three-signal layouts".into(),
        e1: true,
    };
    st.merge(hand_built_part(&deadline));
    st.merge(crate::props::c13::reuse_part(&deadline));
    st.merge(crate::props::c13::api_use_part(&deadline));
    st.merge(crate::props::c14::cloned_signal_list_part(&deadline));
    finish(meta, st, started)
}
