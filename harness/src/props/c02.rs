//! C02 — driver protocol: defaults first, then exactly one call per row, passed verbatim,
//! lazily; nothing after the end (DESIGN §6/C02). Explicit-state exploration (E1); the
//! oracle compares the driver's call log with the yielded items and needs no reference rows.

use crate::e1::*;
use crate::engine::*;
use crate::model::*;
use crate::props::c04;
use crate::refsem::*;
use crate::space::*;
use crate::subject::*;
use serde_json::json;
use std::sync::Arc;
use std::time::Instant;

fn oracle() -> Oracle {
    Arc::new(|seen: &Seen<'_>, st: &mut Stats| {
        let o = seen.obs;
        let r = seen.reference;
        let case = seen.case;
        let fail = |m: String| Some((m.split(':').next().unwrap_or("?").to_string(), m));
        match seen.item {
            None => {
                if o.init != ObsInit::Ok && !matches!(o.init, ObsInit::Runtime(_) | ObsInit::DriverErr(_)) {
                    return fail(format!("construction failed unexpectedly: {}", o.init.brief()));
                }
                // exactly one output-reading call with every input-capable signal at its default
                if o.log.len() != 1 {
                    return fail(format!("constructor calls: constructing the iterator made {} driver calls, expected exactly one", o.log.len()));
                }
                let c = &o.log[0];
                if !c.rw {
                    return fail("constructor call kind: the initial call must read the outputs".into());
                }
                let want: Vec<(String, V, bool)> = case.sigs.iter().filter(|s| s.is_in()).map(|s| (s.name.clone(), s.default().unwrap(), false)).collect();
                if c.inputs != want {
                    return fail(format!("constructor inputs: the initial call carried {:?}, expected every input-capable signal at its default, unchanged: {want:?}", c.inputs));
                }
                st.witness("constructor_call_checked");
                None
            }
            Some(k) => {
                let (Some(before), Some(after)) = (o.calls_after.get(k), o.calls_after.get(k + 1)) else {
                    // the implementation stopped earlier than the reference: not a protocol matter
                    return None;
                };
                let delta = after - before;
                // nothing is sent behind the caller's back when the iterator is dropped
                if let Some(last) = o.calls_after.last() {
                    if o.log.len() != *last {
                        return fail(format!("calls after drop: {} driver calls were made after the last next() had returned (when the iterator was dropped)", o.log.len() - last));
                    }
                }
                let Some(item) = o.items.get(k) else { return None };
                match item {
                    ObsItem::Row(row) => {
                        if delta != 1 {
                            return fail(format!("calls per row: next() number {k} yielded a row and made {delta} driver calls, expected exactly one"));
                        }
                        let c = &o.log[*after - 1];
                        if c.inputs != row.inputs {
                            return fail(format!("verbatim inputs: the call for row {k} carried {:?} but the row reports {:?}", c.inputs, row.inputs));
                        }
                        // which rows are checked is the reference's: the two mid-clock rows of a C
                        // expansion are unchecked, every other row is checked
                        let has_outputs = case.sigs.iter().any(|s| s.is_out()) || !case.prog.declares().is_empty();
                        if let Some(RefItem::Row(rr)) = r.items.get(k) {
                            if has_outputs && rr.checked == row.outputs.is_empty() {
                                return fail(format!("checked rows: row {k} is {} but has {} outputs", if rr.checked { "a checked row (not a mid-clock row)" } else { "a mid-clock row" }, row.outputs.len()));
                            }
                        }
                        if case.ov {
                            // checked rows go out with the output-reading call also when there is nothing to read
                            if let (false, Some(RefItem::Row(rr))) = (has_outputs, r.items.get(k)) {
                                st.witness("signal_list_without_outputs");
                                if c.rw != rr.checked {
                                    return fail(format!("call kind: row {k} is {} but was sent with the {} call", if rr.checked { "a checked row" } else { "a mid-clock row" }, if c.rw { "output-reading" } else { "write-only" }));
                                }
                            } else if c.rw != !row.outputs.is_empty() {
                                return fail(format!("call kind: row {k} has {} outputs but was sent with the {} call", row.outputs.len(), if c.rw { "output-reading" } else { "write-only" }));
                            }
                            st.witness(if c.rw { "checked_row_output_reading_call" } else { "mid_clock_row_write_only_call" });
                        } else if !c.rw {
                            return fail("call kind: a driver without write_input override saw a write-only call".into());
                        } else if row.outputs.is_empty() {
                            st.witness("mid_clock_row_through_default_write_input");
                        }
                        None
                    }
                    ObsItem::DriverErr(_) => {
                        if delta != 1 {
                            return fail(format!("calls per driver-error item: {delta} calls, expected one"));
                        }
                        None
                    }
                    ObsItem::Runtime(_) => {
                        match r.items.get(k) {
                            Some(RefItem::ExprErr(_)) => {
                                st.witness("expression_error_item_without_call");
                                if delta != 0 {
                                    return fail(format!("calls per expression-error item: the row could not be evaluated, yet {delta} driver calls were made"));
                                }
                            }
                            Some(RefItem::VirtErr(_)) => {
                                if delta != 1 {
                                    return fail(format!("calls per item: an error raised after the call must account for exactly one call, {delta} were made"));
                                }
                            }
                            _ => {
                                if delta > 1 {
                                    return fail(format!("calls per item: an error item made {delta} driver calls"));
                                }
                            }
                        }
                        None
                    }
                    ObsItem::End => {
                        st.witness(if seen.after_end { "next_after_end" } else { "end_of_iteration" });
                        if delta != 0 {
                            return fail(format!("calls after the end: next() returned None but made {delta} driver calls"));
                        }
                        None
                    }
                    ObsItem::Panic(_) | ObsItem::Watchdog => None,
                }
            }
        }
    })
}

fn shape_space(k: usize) -> ForestSpace {
    let l = |n: i64| Entry::Lit(n, Radix::Dec);
    let kk = || Entry::Paren(name("k"));
    let atoms = vec![
        Stmt::Row(vec![l(0), l(0), Entry::X]),
        Stmt::Row(vec![l(0), l(1), Entry::X]),
        Stmt::Row(vec![Entry::C, l(1), l(1)]),
        Stmt::Row(vec![Entry::C, l(0), Entry::X]),
        Stmt::Row(vec![l(1), Entry::C, l(2)]),
        Stmt::Row(vec![Entry::X, l(0), l(2)]),
        Stmt::Row(vec![Entry::C, Entry::X, Entry::X]),
        Stmt::Row(vec![Entry::Z, kk(), l(2)]),
        Stmt::Row(vec![Entry::Paren(bin(BinOp::Div, lit(1), lit(0))), l(0), Entry::X]),
        Stmt::Repeat(lit(2), vec![l(0), l(0), Entry::X]),
        Stmt::Repeat(lit(2), vec![Entry::C, l(0), l(0)]),
    ];
    let blocks = vec![Block::Loop("k".into(), lit(2))];
    ForestSpace::new(atoms, blocks, 1, k)
}

pub fn run(tier: Tier, seed: u64) -> i32 {
    let started = Instant::now();
    let deadline = Deadline::new(tier.wall_cap());
    let mut cases = vec![];
    // (a) sequences of row shapes without device reads
    // B (not in the header) has a default that does not fit its width: defaults come from the signal
    // list, not from the program, and are passed on as they are in the constructor call and in rows
    let sigs_a = vec![Sig::inp("CLK", 1, 0), Sig::inp("A", 4, 3), Sig::out("Q", 4), Sig::inp("B", 2, 6)];
    let ans_a = vec![MenuItem::ans(vec![("Q".into(), V::Num(2))])];
    // configurations with a bidirectional signal: used as input and expected, only through
    // its _out column, and not mentioned at all
    let sigs_bidir = vec![Sig::out("Q", 4), Sig::bidir("D", 4, V::Num(21)), Sig::inp("CLK", 1, 0), Sig::inp("A", 4, -3)];
    let ans_bidir = vec![MenuItem::ans(vec![("Q".into(), V::Num(2)), ("D".into(), V::Num(1))])];
    let fault = MenuItem { step: crate::driver::Step::Fault(77), deviation: true, label: "fault".into() };
    let maxk = tier.pick(4, 5);
    let mut na = 0;
    // programs without a single row (nothing but the header; a let; a loop that never runs): the
    // constructor still sends the defaults with its one output-reading call, next() sends nothing
    for (what, body) in [("header only", vec![]), ("a let and nothing else", vec![Stmt::Let("k".into(), lit(1))]), ("a loop that never runs", vec![Stmt::Loop("i".into(), lit(0), vec![Stmt::Row(vec![Entry::Lit(1, Radix::Dec), Entry::Lit(1, Radix::Dec), Entry::X])])]), ("a declaration and nothing else", vec![Stmt::Declare("V".into(), bin(BinOp::Add, name("Q"), lit(1)))])] {
        for ov in [true, false] {
            let prog = Program { header: vec!["CLK".into(), "A".into(), "Q".into()], body: body.clone() };
            cases.push(Case::new(&format!("program without rows ({what}) {}", if ov { "Ov" } else { "Fw" }), prog.clone(), sigs_a.clone(), ov, ans_a.clone(), ans_a.clone(), 6));
            let p0 = Program { header: vec!["CLK".into(), "A".into()], body: if what.starts_with("a loop") { vec![Stmt::Loop("i".into(), lit(0), vec![Stmt::Row(vec![Entry::Lit(1, Radix::Dec), Entry::Lit(1, Radix::Dec)])])] } else if what.starts_with("a decl") { vec![] } else { body.clone() } };
            let none = vec![MenuItem::ans(vec![])];
            cases.push(Case::new(&format!("program without rows, signal list without outputs ({what}) {}", if ov { "Ov" } else { "Fw" }), p0, vec![Sig::inp("CLK", 1, 0), Sig::inp("A", 4, 3), Sig::inp("B", 2, 6)], ov, none.clone(), none, 6));
            na += 2;
        }
    }
    for k in 1..=maxk {
        let sp = shape_space(k);
        for idx in 0..sp.count(k) {
            let mut body = vec![Stmt::Let("k".into(), lit(1))];
            body.extend(sp.unrank(k, idx));
            let prog = Program { header: vec!["CLK".into(), "A".into(), "Q".into()], body };
            for ov in [true, false] {
                if k == 5 && !ov {
                    continue;
                }
                cases.push(Case::new(&format!("row sequences K={k} #{idx} {}", if ov { "Ov" } else { "Fw" }), prog.clone(), sigs_a.clone(), ov, ans_a.clone(), ans_a.clone(), 40));
                na += 1;
                if k <= 3 {
                    // a signal list without any output: stimulus only
                    let strip = |b: &[Stmt]| -> Vec<Stmt> {
                        fn go(b: &[Stmt]) -> Vec<Stmt> {
                            b.iter()
                                .map(|s| match s {
                                    Stmt::Row(es) => Stmt::Row(es[..es.len() - 1].to_vec()),
                                    Stmt::Repeat(e, es) => Stmt::Repeat(e.clone(), es[..es.len() - 1].to_vec()),
                                    Stmt::Loop(v, e, b) => Stmt::Loop(v.clone(), e.clone(), go(b)),
                                    Stmt::While(c, b) => Stmt::While(c.clone(), go(b)),
                                    other => other.clone(),
                                })
                                .collect()
                        }
                        go(b)
                    };
                    let p0 = Program { header: vec!["CLK".into(), "A".into()], body: strip(&prog.body) };
                    let sigs_in = vec![Sig::inp("CLK", 1, 0), Sig::inp("A", 4, 3), Sig::inp("B", 2, 6)];
                    let none = vec![MenuItem::ans(vec![])];
                    cases.push(Case::new(&format!("signal list without outputs K={k} #{idx} {}", if ov { "Ov" } else { "Fw" }), p0, sigs_in, ov, none.clone(), none, 40));
                    na += 1;
                    // the driver fails once, at any call, and the caller carries on
                    let mut menu = ans_a.clone();
                    menu.push(fault.clone());
                    let mut c = Case::new(&format!("row sequences with one driver fault K={k} #{idx} {}", if ov { "Ov" } else { "Fw" }), prog.clone(), sigs_a.clone(), ov, ans_a.clone(), menu, 40);
                    c.dev_budget = 1;
                    c.continue_after_call_errors = true;
                    c.w_menu = vec![fault.clone()];
                    cases.push(c);
                    na += 1;
                    for (hname, header) in [("D as input and D_out", ["CLK", "D", "D_out"]), ("D only through D_out", ["CLK", "A", "D_out"]), ("D not mentioned", ["CLK", "A", "Q"])] {
                        let p2 = Program { header: header.iter().map(|s| s.to_string()).collect(), body: prog.body.clone() };
                        cases.push(Case::new(&format!("bidirectional signal, {hname}, K={k} #{idx} {}", if ov { "Ov" } else { "Fw" }), p2.clone(), sigs_bidir.clone(), ov, ans_bidir.clone(), ans_bidir.clone(), 40));
                        na += 1;
                        // the same with a bidirectional signal that floats by default: it is input-capable all the same
                        if k <= 2 {
                            let mut sz = sigs_bidir.clone();
                            sz[1] = Sig::bidir("D", 4, V::Z);
                            cases.push(Case::new(&format!("bidirectional signal with default Z, {hname}, K={k} #{idx} {}", if ov { "Ov" } else { "Fw" }), p2, sz, ov, ans_bidir.clone(), ans_bidir.clone(), 40));
                            na += 1;
                        }
                    }
                }
            }
        }
    }
    // (b) feedback programs (the C04 alphabet) under every answer history
    let (atoms, blocks) = c04::alphabet();
    let header: Vec<String> = ["A", "CLK", "Q", "DONE"].iter().map(|s| s.to_string()).collect();
    let sigs_b = c04::lists().remove(0);
    let mut nb = 0;
    for k in 1..=tier.pick(3, 3) {
        let sp = ForestSpace::new(atoms.clone(), blocks.clone(), 2, k);
        for idx in 0..sp.count(k) {
            let prog = Program { header: header.clone(), body: sp.unrank(k, idx) };
            if bind_judgement(&prog, &sigs_b).is_err() {
                continue;
            }
            let menu = c04::answers(&sigs_b, None, &[V::Num(0), V::Num(1), V::Z]);
            for ov in [true, false] {
                cases.push(Case::new(&format!("feedback K={k} #{idx} {}", if ov { "Ov" } else { "Fw" }), prog.clone(), sigs_b.clone(), ov, menu.clone(), menu.clone(), tier.pick(8, 10)));
                nb += 1;
            }
        }
    }
    // (c) virtual signal failing after the call was made
    {
        let l = |n: i64| Entry::Lit(n, Radix::Dec);
        let prog = Program { header: header.clone(), body: vec![Stmt::Declare("V".into(), bin(BinOp::Div, lit(8), name("Q"))), Stmt::Row(vec![l(1), Entry::C, Entry::X, Entry::X]), Stmt::Row(vec![l(2), l(0), Entry::X, Entry::X])] };
        let menu = c04::answers(&sigs_b, None, &[V::Num(0), V::Num(1), V::Z]);
        for ov in [true, false] {
            cases.push(Case::new("virtual signal error after the call", prog.clone(), sigs_b.clone(), ov, menu.clone(), menu.clone(), 8));
        }
    }
    // far beyond the enumerated scope: 300 clock rows (more than 255 and 256*3 calls)
    {
        let l = |n: i64| Entry::Lit(n, Radix::Dec);
        let prog = Program { header: vec!["CLK".into(), "A".into(), "Q".into()], body: vec![Stmt::Loop("k".into(), lit(300), vec![Stmt::Row(vec![Entry::C, Entry::Paren(name("k")), Entry::X])]), Stmt::Row(vec![l(0), l(1), l(2)])] };
        for ov in [true, false] {
            let mut c = Case::new(&format!("300 clock rows {}", if ov { "Ov" } else { "Fw" }), prog.clone(), sigs_a.clone(), ov, ans_a.clone(), ans_a.clone(), 1000);
            c.fuel = (20_000, 2_000);
            cases.push(c);
        }
    }
    let res = explore(cases, oracle(), true, &deadline);
    let mut st = res.stats;
    st.nontrivial = st.states;
    if st.max_depth >= 900 {
        st.witness("run_of_more_than_900_calls");
    }
    st.space("(a) row-sequence programs x driver variants", na);
    st.space("(b) feedback programs x driver variants", nb);
    st.sample(|| json!({"case": "CLK A Q / let k = 1 ; / 0 1 X / 0 1 X / C 1 1", "oracle": "call log vs yielded items: one call per row, verbatim inputs incl. changed flags, kind <-> outputs.is_empty(), none for expression errors and after the end"}));
    let meta = CheckMeta {
        id: "C02",
        tier,
        seed,
        rule: "explicit-state BFS (stateright) over (a) every sequence of up to K row statements from an 11-row menu (plain, C, X, Z, failing expression, repeat) at loop depth 0/1 and (b) every feedback program of the C04 alphabet under every answer history, for drivers that do and do not override write_input; after every transition the driver's call log is compared with the items yielded so far; distinct_nontrivial = unique states".into(),
        assumptions: vec![
            "the oracle uses only the subject's own items and the driver's log; the reference interpreter is used to predict which kind of call comes next (to build the script) and whether an error item precedes or follows its call".into(),
        ],
        required_witnesses: vec!["constructor_call_checked", "checked_row_output_reading_call", "mid_clock_row_write_only_call", "mid_clock_row_through_default_write_input", "expression_error_item_without_call", "end_of_iteration", "next_after_end", "run_of_more_than_900_calls", "one_loaded_test_used_twice_with_different_drivers", "iterator_advanced_with_nth", "signal_list_without_outputs"],
        exhaustive_note: "every reachable state up to the depth bound for every case".into(),
        e1: true,
    };
    st.merge(crate::props::c13::reuse_part(&deadline));
    st.merge(crate::props::c13::api_use_part(&deadline));
    st.merge(crate::props::c13::edited_defaults_part(&deadline));
    finish(meta, st, started)
}
