//! C11 — binding a test to a signal list succeeds exactly when the two fit together
//! (DESIGN §6/C11): every signal list (any sequence, duplicates included) x every header
//! x a program menu, against an independent four-clause judgement; every accepted case
//! is iterated to completion.

use crate::driver::*;
use crate::engine::*;
use crate::model::*;
use crate::props::util::*;
use crate::refsem::*;
use crate::subject::*;
use digital_test_runner as dtr;
use serde_json::json;
use std::time::Instant;

fn menu() -> Vec<Sig> {
    vec![
        Sig::inp("A", 4, 0),
        Sig::out("A", 4),
        Sig::bidir("A", 4, V::Num(18)),
        Sig::inp("B", 4, 1),
        Sig::out("Q", 4),
        Sig::inp("Q", 4, 0),
        Sig::bidir("Q", 4, V::Z),
        Sig::out("A_out", 4),
        // an input whose name is the _out column of a bidirectional signal
        Sig::inp("A_out", 4, 0),
        Sig::inp("V", 4, 0),
        Sig::out("V", 4),
    ]
}

const COLUMNS: [&str; 7] = ["A", "B", "Q", "A_out", "Q_out", "V", "W9"];

fn l(n: i64) -> Entry {
    Entry::Lit(n, Radix::Dec)
}

/// a row of width w with `first` in column 0 and 1 elsewhere
fn row_with(w: usize, first: Entry) -> Stmt {
    let mut es = vec![first];
    es.extend((1..w).map(|_| l(1)));
    Stmt::Row(es)
}

fn plain(w: usize) -> Stmt {
    Stmt::Row((0..w).map(|j| l(j as i64 + 1)).collect())
}

pub fn programs(w: usize) -> Vec<(String, Vec<Stmt>)> {
    let mut out: Vec<(String, Vec<Stmt>)> = vec![];
    out.push(("plain rows".into(), vec![plain(w), plain(w)]));
    for j in 0..w {
        let mut es: Vec<Entry> = (0..w).map(|_| l(0)).collect();
        es[j] = Entry::C;
        out.push((format!("C in column {j}"), vec![Stmt::Row(es.clone())]));
        out.push((format!("C in column {j} of the second row only"), vec![plain(w), Stmt::Row(es.clone())]));
        out.push((format!("C in column {j} of a never executed row"), vec![plain(w), Stmt::While(lit(0), vec![Stmt::Row(es)])]));
    }
    // C after a bits entry that spans several columns / no column
    if w >= 2 {
        let mut es = vec![Entry::Bits((w - 1) as u8, lit(1)), Entry::C];
        out.push((format!("bits({},1) then C in the last column", w - 1), vec![Stmt::Row(es.clone())]));
        es = vec![Entry::C, Entry::Bits((w - 1) as u8, lit(1))];
        out.push(("C then bits".into(), vec![Stmt::Row(es)]));
        let mut es2 = vec![Entry::Bits(0, lit(1)), Entry::C];
        es2.extend((1..w).map(|_| l(0)));
        out.push(("bits(0,1) then C in column 0".into(), vec![Stmt::Row(es2)]));
    }
    if w >= 3 {
        out.push(("bits(2,1) C in column 2".into(), vec![Stmt::Row({
            let mut v = vec![Entry::Bits(2, lit(1)), Entry::C];
            v.extend((3..w).map(|_| l(0)));
            v
        })]));
        out.push(("0 bits(1,1) C".into(), vec![Stmt::Row({
            let mut v = vec![l(0), Entry::Bits(1, lit(1)), Entry::C];
            v.extend((3..w).map(|_| l(0)));
            v
        })]));
    }
    let rd = |x: &str| row_with(w, Entry::Paren(name(x)));
    for x in ["A", "B", "Q", "u"] {
        let nx = || name(x);
        out.push((format!("read {x} in a row entry"), vec![rd(x)]));
        out.push((format!("read {x} in a bits entry"), vec![{
            let mut es = vec![Entry::Bits(1, nx())];
            es.extend((1..w).map(|_| l(1)));
            Stmt::Row(es)
        }]));
        out.push((format!("read {x} in a let"), vec![Stmt::Let("t".into(), nx()), plain(w)]));
        out.push((format!("read {x} as loop bound"), vec![Stmt::Loop("i".into(), nx(), vec![plain(w)])]));
        out.push((format!("read {x} as repeat bound"), vec![Stmt::Repeat(nx(), (0..w).map(|_| l(1)).collect())]));
        out.push((format!("read {x} in a while condition"), vec![Stmt::While(bin(BinOp::Eq, nx(), lit(0)), vec![plain(w)])]));
        out.push((format!("read {x} in the unselected branch of ite"), vec![row_with(w, Entry::Paren(ite(lit(1), lit(2), nx())))]));
        out.push((format!("read {x} in a never executed body"), vec![Stmt::While(lit(0), vec![rd(x)]), plain(w)]));
        out.push((format!("let {x} at top level, then read"), vec![Stmt::Let(x.into(), lit(1)), rd(x)]));
        out.push((format!("let {x} inside a loop, read inside the same loop"), vec![Stmt::Loop("i".into(), lit(1), vec![Stmt::Let(x.into(), lit(1)), rd(x)])]));
        out.push((format!("let {x} inside a loop, read after the loop"), vec![Stmt::Loop("i".into(), lit(1), vec![Stmt::Let(x.into(), lit(1))]), rd(x)]));
        out.push((format!("read {x} before the let inside a loop"), vec![Stmt::Loop("i".into(), lit(2), vec![rd(x), Stmt::Let(x.into(), lit(1))])]));
        out.push((format!("let {x} = {x} + 1 (reads itself)"), vec![Stmt::Let(x.into(), bin(BinOp::Add, nx(), lit(1))), plain(w)]));
        out.push((format!("let {x} inside an executed while, read after it"), vec![Stmt::Let("t".into(), lit(1)), Stmt::While(name("t"), vec![Stmt::Let(x.into(), lit(1)), Stmt::Let("t".into(), lit(0))]), rd(x)]));
        out.push((format!("let {x}; a loop holding only a declaration; read {x} after the loop"), vec![Stmt::Let(x.into(), lit(1)), Stmt::Loop("i".into(), lit(1), vec![Stmt::Declare("W9".into(), lit(1))]), rd(x)]));
        out.push((format!("let {x} inside a loop, a declaration after it in the same body, then read {x}"), vec![Stmt::Loop("i".into(), lit(1), vec![Stmt::Let(x.into(), lit(1)), Stmt::Declare("W9".into(), lit(2)), rd(x)])]));
        out.push((format!("let {x}; declaration inside while; read {x}"), vec![Stmt::Let(x.into(), lit(1)), Stmt::While(lit(0), vec![Stmt::Declare("W9".into(), lit(1))]), rd(x)]));
        out.push((format!("loop counter {x}, read inside"), vec![Stmt::Loop(x.into(), lit(2), vec![rd(x)])]));
        out.push((format!("loop counter {x}, read after the loop"), vec![Stmt::Loop(x.into(), lit(1), vec![plain(w)]), rd(x)]));
        out.push((format!("loop({x},{x})"), vec![Stmt::Loop(x.into(), nx(), vec![plain(w)])]));
        out.push((format!("declare V = {x}"), vec![Stmt::Declare("V".into(), nx()), plain(w)]));
        out.push((format!("let {x} = 1; declare V = {x} (variables are invisible to declarations)"), vec![Stmt::Let(x.into(), lit(1)), Stmt::Declare("V".into(), nx()), plain(w)]));
    }
    out.push(("repeat(2) reads n".into(), vec![Stmt::Repeat(lit(2), {
        let mut es = vec![Entry::Paren(name("n"))];
        es.extend((1..w).map(|_| l(1)));
        es
    })]));
    out.push(("repeat(n): n in its own bound".into(), vec![Stmt::Repeat(name("n"), (0..w).map(|_| l(1)).collect())]));
    out.push(("n read after a repeat".into(), vec![Stmt::Repeat(lit(1), (0..w).map(|_| l(1)).collect()), rd("n")]));
    out.push(("declare W9 = 1".into(), vec![Stmt::Declare("W9".into(), lit(1)), plain(w)]));
    out.push(("declare W9 = Q after the rows".into(), vec![plain(w), Stmt::Declare("W9".into(), name("Q"))]));
    out.push(("declare A = 1 (name of a possible real signal)".into(), vec![Stmt::Declare("A".into(), lit(1)), plain(w)]));
    out.push(("declare V = 1; read V in a row".into(), vec![Stmt::Declare("V".into(), lit(1)), rd("V")]));
    out.push(("declare V = 1; declare W9 = V".into(), vec![Stmt::Declare("V".into(), lit(1)), Stmt::Declare("W9".into(), name("V")), plain(w)]));
    out
}

pub fn run(tier: Tier, seed: u64) -> i32 {
    let started = Instant::now();
    let deadline = Deadline::new(tier.wall_cap());
    let menu = menu();
    let max_list = tier.pick(3, 4);
    let lists: Vec<Vec<Sig>> = sequences(menu.len(), max_list).into_iter().map(|l| l.into_iter().map(|i| menu[i].clone()).collect()).collect();
    let real_lists: Vec<Vec<dtr::Signal>> = lists.iter().map(|l| l.iter().map(|s| s.to_real()).collect()).collect();
    let headers: Vec<Vec<String>> = ordered_selections(COLUMNS.len(), 3).into_iter().filter(|h| !h.is_empty()).map(|h| h.into_iter().map(|i| COLUMNS[i].to_string()).collect()).collect();
    let progs: Vec<Vec<(String, Vec<Stmt>)>> = (0..=3).map(|w| if w == 0 { vec![] } else { programs(w) }).collect();
    let units: Vec<(usize, usize)> = headers.iter().enumerate().flat_map(|(hi, h)| (0..progs[h.len()].len()).map(move |pi| (hi, pi))).collect();
    let label = format!("(header, program) units: {} headers (ordered selections of <= 3 of 7 column names) x program menu; each against all {} signal lists (sequences of <= {max_list} of 11 menu signals)", headers.len(), lists.len());
    let st = par_range(&label, units.len() as u64, &deadline, |u, st| {
        let (hi, pi) = units[u as usize];
        let header = &headers[hi];
        let (plabel, body) = &progs[header.len()][pi];
        let prog = Program { header: header.clone(), body: body.clone() };
        let text = text(&prog);
        let parsed = match parse(&text, DEFAULT_BUDGET) {
            Ok(Ok(p)) => p,
            other => {
                st.violation("program of the menu does not parse", u, format!("program:\n{text}parse result: {:?}", other.map(|r| r.map(|_| ()).map_err(|e| miette_chain(&e)))), || json!({"kind": "parse", "text": text, "expected": ["accepted"], "observed": [crate::props::c09::describe(&text)]}));
                return;
            }
        };
        for (li, sigs) in lists.iter().enumerate() {
            st.evals += 1;
            let want = bind_judgement(&prog, sigs);
            let p2 = parsed.clone();
            let real = real_lists[li].clone();
            let got = guard(DEFAULT_BUDGET, move || p2.with_signals(real));
            let order = (sigs.len() as u64) << 40 | (li as u64) << 20 | u;
            let describe = |got: &str| format!("signals: [{}]\nprogram ({plabel}):\n{text}reference judgement: {want:?}\nwith_signals: {got}", sigs.iter().map(|s| s.show()).collect::<Vec<_>>().join(", "));
            let replay = |obs: String| json!({"kind": "bind", "text": text, "signals": sigs_json(sigs), "expected": [format!("{:?}", want.as_ref().map(|_| "accepted"))], "observed": [obs]});
            match (&want, &got) {
                (_, Err(c)) => {
                    let d = format!("{c:?}");
                    st.violation("with_signals panics", order, describe(&d), || replay(d.clone()));
                }
                (Ok(()), Ok(Err(e))) => {
                    let d = format!("Err({})", miette_chain(e));
                    st.violation("fitting test and signal list rejected", order, describe(&d), || replay("rejected".into()));
                }
                (Err(why), Ok(Ok(_))) => {
                    st.nontrivial += 1;
                    st.violation(&format!("misfit accepted ({why:?})"), order, describe("Ok"), || replay("accepted".into()));
                }
                (Err(why), Ok(Err(_))) => {
                    st.nontrivial += 1;
                    st.witness(match why {
                        BindReject::DuplicateSignal => "rejected_duplicate_signal",
                        BindReject::SignalIsVirtual => "rejected_signal_is_virtual",
                        BindReject::UnknownColumn => "rejected_unknown_header_column",
                        BindReject::ClockNotInput => "rejected_clock_column_not_an_input",
                        BindReject::ReadNotOutput => "rejected_read_of_non_output",
                    });
                }
                (Ok(()), Ok(Ok(tc))) => {
                    st.nontrivial += 1;
                    st.witness("accepted_and_iterated");
                    // an accepted test can always be iterated
                    let answer: Answer = sigs.iter().filter(|s| s.is_out()).map(|s| (s.name.clone(), V::Num(1))).collect();
                    let script = vec![Step::Ans(answer)];
                    let mut opts = RunOpts::new(24);
                    opts.repeat_last = true;
                    let obs = run_loaded(tc, sigs, true, &script, &opts);
                    st.steps += obs.items.len() as u64;
                    let bad = if obs.init != ObsInit::Ok {
                        Some(format!("construction: {}", obs.init.brief()))
                    } else if let Some((k, it)) = obs.items.iter().enumerate().find(|(_, i)| !matches!(i, ObsItem::Row(_) | ObsItem::End)) {
                        Some(format!("item {k}: {}", it.brief()))
                    } else if obs.items.last() != Some(&ObsItem::End) {
                        Some("the iteration did not end within 24 rows".to_string())
                    } else {
                        None
                    };
                    if let Some(b) = bad {
                        let class = if b.contains("PANIC") || b.contains("Panic") { format!("accepted test panics when iterated {}", panic_site(&b)) } else { "accepted test cannot be iterated".to_string() };
                        st.violation(&class, order, describe(&format!("Ok, but iterating it gives {b}")), || dyn_replay(&text, sigs, true, &script, &opts, vec!["rows until the end, no error item".into()], &obs, &b));
                    }
                    if li % 97 == 0 && u % 53 == 0 {
                        st.sample(|| json!({"signals": sigs_json(sigs), "program": text, "verdict": "accepted", "rows": obs.items.len()}));
                    }
                }
            }
        }
    });
    // wide tests (up to 130 columns): everything fits; one column unknown; one signal duplicated;
    // a C in an output column; a read of a name that is not an output
    let mut st = st;
    {
        let widths = [31usize, 32, 33, 63, 64, 65, 66, 70, 130];
        let variants = 5u64;
        let w = par_range("wide tests: {31,32,33,63,64,65,66,70,130} columns x {fits, unknown column at i, duplicated signal, C in an output column i, read of an input} x every position i", widths.iter().map(|n| *n as u64).sum::<u64>() * variants, &deadline, |u, st| {
            let variant = u % variants;
            let mut rest = u / variants;
            let mut n = 0;
            for wd in widths {
                if rest < wd as u64 {
                    n = wd;
                    break;
                }
                rest -= wd as u64;
            }
            let pos = rest as usize;
            // signals: even positions inputs, odd positions outputs
            let mut sigs: Vec<Sig> = (0..n).map(|i| if i % 2 == 0 { Sig::inp(&format!("S{i}"), 4, 0) } else { Sig::out(&format!("S{i}"), 4) }).collect();
            let mut header: Vec<String> = (0..n).map(|i| format!("S{i}")).collect();
            let mut row: Vec<Entry> = (0..n).map(|i| if i % 2 == 0 { l((i % 16) as i64) } else { Entry::X }).collect();
            match variant {
                0 => {}
                1 => header[pos] = "nosuch".into(),
                2 => {
                    let other = (pos + 2) % n;
                    sigs[pos].name = sigs[other].name.clone();
                    header[pos] = format!("S{pos}");
                }
                3 => row[pos] = Entry::C,
                _ => row[pos] = if pos % 2 == 0 { Entry::Paren(name(&format!("S{}", (pos + 1) % n))) } else { Entry::Paren(name(&format!("S{}", (pos + 1) % n))) },
            }
            let prog = Program { header, body: vec![Stmt::Row(row.clone()), Stmt::Row(row)] };
            let text = text(&prog);
            st.evals += 1;
            st.nontrivial += 1;
            st.witness("wide_test");
            let want = bind_judgement(&prog, &sigs);
            let got = load(&text, &sigs, DEFAULT_BUDGET);
            let describe = |g: &str| format!("{n} columns, variant {variant} at position {pos}\nreference judgement: {want:?}\nwith_signals: {g}\nprogram:\n{}", text.chars().take(400).collect::<String>());
            let replay = |obs: String| json!({"kind": "bind", "text": text, "signals": sigs_json(&sigs), "expected": [format!("{:?}", want.as_ref().map(|_| "accepted"))], "observed": [obs]});
            match (&want, &got) {
                (Ok(()), Ok(tc)) => {
                    let answer: Answer = sigs.iter().filter(|s| s.is_out()).map(|s| (s.name.clone(), V::Num(1))).collect();
                    let script = vec![Step::Ans(answer)];
                    let mut opts = RunOpts::new(24);
                    opts.repeat_last = true;
                    let obs = run_loaded(tc, &sigs, true, &script, &opts);
                    if obs.init != ObsInit::Ok || obs.items.iter().any(|i| !matches!(i, ObsItem::Row(_) | ObsItem::End)) {
                        let b = crate::compare::obs_items_brief(&obs).join(" / ");
                        st.violation("accepted wide test cannot be iterated", u, describe(&format!("Ok, but iterating gives {}", b.chars().take(300).collect::<String>())), || dyn_replay(&text, &sigs, true, &script, &opts, vec!["rows until the end".into()], &obs, "not iterable"));
                    }
                }
                (Ok(()), Err(ObsInit::BindErr(e))) => st.violation("fitting wide test rejected", u, describe(&format!("Err({e})")), || replay("rejected".into())),
                (Err(_), Err(ObsInit::BindErr(_))) => {}
                (Err(why), Ok(_)) => st.violation(&format!("misfit accepted ({why:?})"), u, describe("Ok"), || replay("accepted".into())),
                (_, Err(o)) => {
                    let d = format!("{o:?}");
                    st.violation(if d.contains("Panic") { "with_signals panics" } else { "wide test does not load" }, u, describe(&d), || replay(d.clone()));
                }
            }
        });
        st.merge(w);
    }
    // several outputs read by expressions in every order of first occurrence, under every order of the
    // signal list: the test is accepted and can be iterated against a driver that supplies them all
    {
        let outs = ["B", "C", "D"];
        let orders = ordered_selections(3, 3);
        let w = par_range("reads of up to 3 outputs in every order of first occurrence x every order of the signal list", (orders.len() * 6) as u64, &deadline, |u, st| {
            let reads = &orders[(u / 6) as usize];
            if reads.is_empty() {
                return;
            }
            let perm = [[0, 1, 2], [0, 2, 1], [1, 0, 2], [1, 2, 0], [2, 0, 1], [2, 1, 0]][(u % 6) as usize];
            let mut sigs = vec![Sig::inp("X", 8, 0)];
            for &i in &perm {
                sigs.push(Sig::out(outs[i], 8));
            }
            let mut body = vec![];
            // first occurrences in the order `reads`: one in a let, the others in rows
            for (k, &i) in reads.iter().enumerate() {
                if k == 0 {
                    body.push(Stmt::Let("t".into(), bin(BinOp::Add, name(outs[i]), lit(1))));
                } else {
                    body.push(Stmt::Row(vec![Entry::Paren(bin(BinOp::Add, name(outs[i]), name("t"))), Entry::X]));
                }
            }
            body.push(Stmt::Row(vec![Entry::Paren(reads.iter().fold(lit(0), |acc, &i| bin(BinOp::Add, acc, name(outs[i])))), l(1)]));
            let prog = Program { header: vec!["X".into(), outs[perm[0]].into()], body };
            let text = text(&prog);
            st.evals += 1;
            st.nontrivial += 1;
            st.witness("outputs_read_in_another_order_than_listed");
            let answer: Answer = sigs.iter().filter(|s| s.is_out()).map(|s| (s.name.clone(), V::Num(2))).collect();
            let script = vec![Step::Ans(answer)];
            let mut opts = RunOpts::new(12);
            opts.repeat_last = true;
            let obs = run_dynamic(&text, &sigs, true, &script, &opts);
            if obs.init != ObsInit::Ok || obs.items.iter().any(|i| !matches!(i, ObsItem::Row(_) | ObsItem::End)) {
                let b = crate::compare::obs_items_brief(&obs).join(" / ");
                st.violation("accepted test cannot be iterated", (21 << 40) + u, format!("signals: [{}]\nprogram:\n{text}the driver supplies every output; iterating gives {}", sigs.iter().map(|s| s.show()).collect::<Vec<_>>().join(", "), b.chars().take(300).collect::<String>()), || dyn_replay(&text, &sigs, true, &script, &opts, vec!["rows until the end, no error item".into()], &obs, "not iterable"));
            }
        });
        st.merge(w);
    }
    // names with multi-byte characters at every offset from the end (with and without the _out suffix),
    // as input, output and bidirectional signal, named in the header directly or as <name>_out
    {
        let stems = ["é", "Tür", "Lösch", "Größe", "öabc", "aöbc", "aböc", "abcö", "€€", "a€", "€a", "😀", "a😀", "😀ab", "ab😀cd", "ö", "ÿÿÿÿ", "n\u{303}o"];
        let mut names: Vec<String> = vec![];
        for st in stems {
            names.push(st.to_string());
            names.push(format!("{st}_out"));
            names.push(format!("{st}_ou"));
            names.push(format!("_out{st}"));
        }
        let kinds = 3u64;
        let w = par_range("non-ASCII signal names (18 stems x 4 affixes) x {input, output, bidirectional} x header {name, name_out, both}", names.len() as u64 * kinds * 3, &deadline, |u, st| {
            let n = &names[(u / 9) as usize];
            let kind = (u / 3) % 3;
            let hv = u % 3;
            let sig = match kind {
                0 => Sig::inp(n, 4, 0),
                1 => Sig::out(n, 4),
                _ => Sig::bidir(n, 4, V::Num(1)),
            };
            let sigs = vec![Sig::inp("A", 4, 0), sig, Sig::out("Q", 4)];
            let header: Vec<String> = match hv {
                0 => vec!["A".into(), n.clone()],
                1 => vec!["A".into(), format!("{n}_out")],
                _ => vec![n.clone(), "A".into(), format!("{n}_out")],
            };
            let row: Vec<Entry> = header.iter().map(|_| l(1)).collect();
            let prog = Program { header, body: vec![Stmt::Row(row)] };
            let text = text(&prog);
            st.evals += 1;
            st.nontrivial += 1;
            st.witness("non_ascii_signal_name");
            let want = bind_judgement(&prog, &sigs);
            let got = load(&text, &sigs, DEFAULT_BUDGET);
            let describe = |g: &str| format!("signals: [{}]\nprogram:\n{text}reference judgement: {want:?}\nwith_signals: {g}", sigs.iter().map(|s| s.show()).collect::<Vec<_>>().join(", "));
            let replay = |obs: String| json!({"kind": "bind", "text": text, "signals": sigs_json(&sigs), "expected": [format!("{:?}", want.as_ref().map(|_| "accepted"))], "observed": [obs]});
            match (&want, &got) {
                (Ok(()), Ok(_)) | (Err(_), Err(ObsInit::BindErr(_))) => {}
                (Ok(()), Err(ObsInit::BindErr(e))) => st.violation("fitting test and signal list rejected", (20 << 40) + u, describe(&format!("Err({e})")), || replay("rejected".into())),
                (Err(why), Ok(_)) => st.violation(&format!("misfit accepted ({why:?})"), (20 << 40) + u, describe("Ok"), || replay("accepted".into())),
                (_, Err(o)) => {
                    let d = format!("{o:?}");
                    st.violation(if d.contains("Panic") { "with_signals panics" } else { "test does not load" }, (20 << 40) + u, describe(&d), || replay(d.clone()));
                }
            }
        });
        st.merge(w);
    }
    let meta = CheckMeta {
        id: "C11",
        tier,
        seed,
        rule: "every sequence (repetition allowed) of menu signals up to the stated length x every ordered selection of up to 3 header columns x every program of the menu (C in each column incl. after bits and in never-executed rows; reads of A/B/Q/u in every expression position, before/inside/after the scope of a let or counter; declarations); each triple generated once; all are non-trivial except none (every triple is a binding decision)".into(),
        assumptions: vec![
            "independent judgement refsem::bind_judgement (four clauses of the property with the static scoping rule of DESIGN section 3.3)".into(),
            "programs contain nothing that can fail at run time for reasons other than binding (no arithmetic faults, no variable assigned only in an unexecuted while body)".into(),
        ],
        required_witnesses: vec!["accepted_and_iterated", "rejected_duplicate_signal", "rejected_signal_is_virtual", "rejected_unknown_header_column", "rejected_clock_column_not_an_input", "rejected_read_of_non_output", "wide_test", "non_ascii_signal_name", "outputs_read_in_another_order_than_listed"],
        exhaustive_note: "all signal lists x headers x menu programs within the bounds".into(),
        e1: false,
    };
    let mut st = st;
    st.merge(crate::props::c14::cloned_signal_list_part(&deadline));
    finish(meta, st, started)
}

pub fn replay_bind(j: &serde_json::Value) -> Vec<String> {
    let text = j["text"].as_str().unwrap_or("");
    let sigs: Vec<Sig> = j["signals"].as_array().map(|a| a.iter().filter_map(|s| s.as_str().and_then(Sig::parse)).collect()).unwrap_or_default();
    vec![match load(text, &sigs, DEFAULT_BUDGET) {
        Ok(_) => "accepted".into(),
        Err(ObsInit::BindErr(_)) => "rejected".into(),
        Err(o) => format!("{o:?}"),
    }]
}
