//! C14 — virtual signals are computed from the same row's outputs, blind to variables
//! (DESIGN §6/C14). Explicit-state exploration (E1): declaration sets x placements x
//! shadowing variables x headers, under every per-call answer (Q,R) in {0,1,2,Z,X}^2.

use crate::compare::*;
use crate::e1::*;
use crate::engine::*;
use crate::model::*;
use crate::refsem::*;
use crate::subject::*;
use serde_json::json;
use std::sync::Arc;
use std::time::Instant;

fn sigs() -> Vec<Sig> {
    vec![Sig::inp("A", 4, 0), Sig::out("Q", 4), Sig::out("R", 4)]
}

fn oracle() -> Oracle {
    Arc::new(|seen: &Seen<'_>, st: &mut Stats| {
        let r = seen.reference;
        let o = seen.obs;
        let proj = Proj { input_values: true, expected: true, output: true, checked_kind: true, lines: false, vars: false, verdicts: true };
        let nreal = seen.case.sigs.iter().filter(|s| s.is_out()).count();
        let m: Option<String> = match seen.item {
            None => {
                if init_matches(&r.init, &o.init) {
                    None
                } else {
                    Some(format!("construction: expected {:?}, got {}", r.init, o.init.brief()))
                }
            }
            Some(k) => match (r.items.get(k), o.items.get(k)) {
                (Some(_), Some(oi)) if o.calls_after.get(k + 1).zip(o.calls_after.get(k)).map(|(a, b)| a > b && seen.deviation_calls.contains(&(a - 1))).unwrap_or(false) => {
                    // the row whose answer has the wrong number of outputs is an error item (C13's);
                    // the rows after it are compared as ever
                    st.witness("row_with_an_answer_of_the_wrong_length");
                    if matches!(oi, ObsItem::Runtime(_)) {
                        None
                    } else {
                        Some(format!("item {k}: expected an error item for an answer that departs from the first layout, got {}", oi.brief()))
                    }
                }
                (Some(ri), Some(oi)) => {
                    // the order of several virtual signals among themselves is C15's: match them by name
                    let mut ri = ri.clone();
                    let mut oi = oi.clone();
                    if let (RefItem::Row(rr), ObsItem::Row(or)) = (&mut ri, &mut oi) {
                        if rr.outputs.len() > nreal {
                            rr.outputs[nreal..].sort_by(|a, b| a.name.cmp(&b.name));
                            st.witness("row_with_virtual_signal");
                            if rr.outputs[nreal..].iter().any(|v| v.expected != V::X) {
                                st.witness("virtual_signal_with_expected_column");
                            }
                        }
                        if or.outputs.len() > nreal {
                            or.outputs[nreal..].sort_by(|a, b| a.name.cmp(&b.name));
                            for v in &or.outputs[nreal..] {
                                if v.bits != 64 || !v.is_virtual {
                                    return Some(("virtual signal width".into(), format!("item {k}: {} is reported with {} bits / virtual={}", v.name, v.bits, v.is_virtual)));
                                }
                            }
                        }
                    }
                    if matches!(ri, RefItem::VirtErr(_)) {
                        st.witness("virtual_signal_over_Z_or_X_is_an_error_item");
                    }
                    item_mismatch(&ri, &oi, proj, None, None).map(|m| format!("item {k}: {m}"))
                }
                (None, Some(oi)) if r.end == RefEnd::Done && *oi != ObsItem::End => Some(format!("item {k}: expected end of iteration, got {}", oi.brief())),
                (Some(ri), None) => Some(format!("item {k}: expected {}, but the iteration had stopped", ref_brief(ri))),
                _ => None,
            },
        };
        m.map(|m| (crate::props::util::classify(&m), format!("first difference at {m}")))
    })
}

/// A legal but unusual use of the public API: the signal list handed to `with_signals` is cloned
/// from the public `signals` field of another loaded test that declares a virtual signal (so the
/// list already holds a virtual signal, in front of an output that is pushed after it). The bound
/// test behaves like the same text with the declaration written into it.
pub fn cloned_signal_list_part(deadline: &Deadline) -> Stats {
    use crate::driver::Step;
    use crate::props::util::*;
    let decls: Vec<(&str, Expr)> = vec![("Q + 1", bin(BinOp::Add, name("Q"), lit(1))), ("Q * 2 + C", bin(BinOp::Add, bin(BinOp::Mul, name("Q"), lit(2)), name("C"))), ("7", lit(7))];
    let tests: Vec<(&str, Vec<&str>, Vec<Vec<Entry>>)> = vec![
        ("virtual column in the header", vec!["A", "Q", "V", "C"], vec![vec![Entry::Lit(1, Radix::Dec), Entry::X, Entry::Lit(3, Radix::Dec), Entry::X], vec![Entry::Lit(2, Radix::Dec), Entry::Lit(1, Radix::Dec), Entry::X, Entry::Lit(5, Radix::Dec)], vec![Entry::C, Entry::X, Entry::Lit(7, Radix::Dec), Entry::Lit(6, Radix::Dec)]]),
        ("neither the virtual signal nor its operand in the header", vec!["A", "C"], vec![vec![Entry::Lit(1, Radix::Dec), Entry::X], vec![Entry::Lit(2, Radix::Dec), Entry::Lit(5, Radix::Dec)]]),
        ("a row that reads C", vec!["A", "C", "V"], vec![vec![Entry::Paren(name("C")), Entry::X, Entry::X], vec![Entry::Paren(bin(BinOp::Add, name("C"), lit(1))), Entry::Lit(5, Radix::Dec), Entry::Lit(4, Radix::Dec)]]),
    ];
    let answers: Vec<Vec<(&str, V)>> = vec![vec![("Q", V::Num(2)), ("C", V::Num(5))], vec![("C", V::Num(6)), ("Q", V::Num(3))], vec![("C", V::Num(5))], vec![("Q", V::Z), ("C", V::Num(5))], vec![]];
    par_range("signal list cloned from a loaded test that declares a virtual signal (3 declarations x 2 list orders) x 3 tests x 5 driver layouts, and the static iteration", (decls.len() * 2 * tests.len() * answers.len()) as u64, deadline, |u, st| {
        let d = digits(u, &[answers.len() as u64, tests.len() as u64, 2, decls.len() as u64]);
        let (ans, (tname, header, rows), c_last, (dtext, dexpr)) = (&answers[d[0]], &tests[d[1]], d[2] == 0, &decls[d[3]]);
        // the first test: declares V; its signal list is what the caller re-uses
        let first_sigs = if dtext.contains('C') { vec![Sig::inp("A", 4, 0), Sig::out("Q", 4), Sig::out("C", 4)] } else { vec![Sig::inp("A", 4, 0), Sig::out("Q", 4)] };
        let first_text = format!("A Q\ndeclare V = {dtext};\n0 X\n");
        let Ok(first) = load(&first_text, &first_sigs, DEFAULT_BUDGET) else { return };
        let mut list: Vec<digital_test_runner::Signal> = first.signals.clone();
        if !dtext.contains('C') {
            let c = Sig::out("C", 4).to_real();
            if c_last {
                list.push(c);
            } else {
                list.insert(1, c);
            }
        }
        let prog2 = Program { header: header.iter().map(|s| s.to_string()).collect(), body: rows.iter().map(|r| Stmt::Row(r.clone())).collect() };
        let text2 = crate::model::text(&prog2);
        let Ok(Ok(parsed)) = parse(&text2, DEFAULT_BUDGET) else { return };
        let bound = guard(DEFAULT_BUDGET, move || parsed.with_signals(list));
        st.evals += 1;
        st.nontrivial += 1;
        st.witness("signal_list_cloned_from_a_loaded_test");
        let tc = match bound {
            Ok(Ok(tc)) => tc,
            Ok(Err(_)) => return, // whether such a list is accepted is C11's
            Err(c) => {
                st.violation("with_signals panics on a cloned signal list", u, format!("first test:\n{first_text}its signals (plus Out C) re-used for:\n{text2}{c:?}"), || json!({"kind": "none", "observed": [format!("{c:?}")], "expected": ["no panic"]}));
                return;
            }
        };
        // reference: the same text with the declaration written into it, plain signals
        let mut body = vec![Stmt::Declare("V".into(), dexpr.clone())];
        body.extend(prog2.body.iter().cloned());
        let refprog = Program { header: prog2.header.clone(), body };
        let plain = vec![Sig::inp("A", 4, 0), Sig::out("Q", 4), Sig::out("C", 4)];
        let answer: Answer = ans.iter().map(|(n, v)| (n.to_string(), *v)).collect();
        let script = vec![Step::Ans(answer)];
        let mut opts = RunOpts::new(12);
        opts.repeat_last = true;
        opts.continue_after_error = true;
        let obs = run_loaded(&tc, &plain, true, &script, &opts);
        let stat = run_static_opt(&tc, 12, 1, DEFAULT_BUDGET, true);
        let panicked = match (&obs.init, &stat) {
            (ObsInit::Panic(s), _) => Some(s.clone()),
            (_, StaticObs::Panic(s)) => Some(format!("static iteration: {s}")),
            _ => obs.items.iter().find_map(|i| if let ObsItem::Panic(s) = i { Some(s.clone()) } else { None }),
        };
        let describe = |m: &str| format!("first test:\n{first_text}its signal list (Out C {}) is re-used for ({tname}):\n{text2}driver answers {ans:?}\n{m}", if c_last { "pushed after V" } else { "inserted before V" });
        if let Some(s) = panicked {
            st.violation(&format!("test bound to a cloned signal list panics {}", panic_site(&s)), u, describe(&s), || dyn_replay(&text2, &plain, true, &script, &opts, vec!["rows / error items".into()], &obs, &s));
            return;
        }
        if bind_judgement(&refprog, &plain).is_err() {
            return;
        }
        let mut env = ScriptEnv::new(&script);
        env.repeat_last = true;
        let r = crate::refsem::run_opts2(&refprog, &plain, &mut env, Fuel { steps: 2000, rows: 40 }, true, true);
        if !init_matches(&r.init, &obs.init) {
            // a driver that does not supply an operand of the virtual signal: construction may fail or every row may
            return;
        }
        if r.init != RefInit::Ok {
            return;
        }
        for (k, (ri, oi)) in r.items.iter().zip(obs.items.iter()).enumerate() {
            let (RefItem::Row(rr), ObsItem::Row(or)) = (ri, oi) else {
                if matches!(ri, RefItem::Row(_)) != oi.is_row() {
                    st.violation("item kind differs for a test bound to a cloned signal list", u, describe(&format!("item {k}: with the declaration written into the text: {}; observed: {}", ref_brief(ri), oi.brief())), || dyn_replay(&text2, &plain, true, &script, &opts, ref_items_brief(&r), &obs, "item kind"));
                    return;
                }
                continue;
            };
            // outputs by name (the position of the virtual signal among them follows the cloned list)
            let mut want: Vec<(String, V, V)> = rr.outputs.iter().map(|o| (o.name.clone(), o.output, o.expected)).collect();
            let mut got: Vec<(String, V, V)> = or.outputs.iter().map(|o| (o.name.clone(), o.output, o.expected)).collect();
            want.sort_by(|a, b| a.0.cmp(&b.0));
            got.sort_by(|a, b| a.0.cmp(&b.0));
            let ins_want: Vec<(String, V)> = rr.inputs.clone();
            let ins_got: Vec<(String, V)> = or.inputs.iter().map(|(n, v, _)| (n.clone(), *v)).collect();
            if want != got || ins_want != ins_got {
                st.violation("values attributed to the wrong signal for a test bound to a cloned signal list", u, describe(&format!("item {k}: (signal, output, expected) by name: expected {want:?}, got {got:?}; inputs expected {ins_want:?}, got {ins_got:?}")), || dyn_replay(&text2, &plain, true, &script, &opts, ref_items_brief(&r), &obs, "outputs by name"));
                return;
            }
        }
    })
}

/// Another use of the public `signals` field: further pins are pushed onto the list of a loaded
/// test (a caller that keeps all pins of the circuit there). The rows do not change.
/// A driver that lists the declared signal itself among its answers (a generic front end that
/// answers for every signal of the public `signals` field that is not an input): whatever the
/// library makes of such an answer, a row it returns carries, for the declared signal, the
/// declaration evaluated over that row's outputs - never the driver's number, and never a value at
/// all where the declaration reads Z.
pub fn driver_answers_for_declared_part(deadline: &Deadline) -> Stats {
    use crate::driver::Step;
    use crate::props::util::*;
    type F = fn(Option<i64>, Option<i64>) -> Option<i64>;
    let progs: Vec<(&str, F)> = vec![ // (W = (Q) in the last program fails whenever Q is Z/X: then no row may be returned at all)
        ("A Q V\ndeclare V = Q + 1;\n1 X X\n2 1 3\n3 X 99\n", |q, _| q.map(|q| q + 1)),
        ("A V\ndeclare V = Q * 2 + R;\n1 X\nC 7\n2 99\n", |q, r| Some(q? * 2 + r?)),
        ("A Q\ndeclare V = (Q);\n1 X\n2 X\n", |q, _| q),
        ("A V Q\ndeclare V = Q;\n1 2 X\n2 X X\n", |q, _| q),
        ("A V\ndeclare V = R;\ndeclare W = (Q);\n1 2\nC X\n", |q, r| {
            q?;
            r
        }),
        ("A Q V\nlet Q = 9;\ndeclare V = ite(R, Q, 7);\n1 X X\n(Q) X 99\n", |q, r| if r? != 0 { q } else { Some(7) }),
    ];
    let sigs = sigs();
    let vnum = [0i64, 99, -1, 3];
    let qs = [V::Num(2), V::Num(98), V::Z, V::X];
    let positions = 3usize;
    par_range("driver that also answers for the declared signal: 6 programs x 4 values given for it x 3 positions in the answer x 4 values of Q x {every call, from the second call on, never (declarations that merely rename an output included)}", (progs.len() * vnum.len() * positions * qs.len() * 3) as u64, deadline, |u, st| {
        let d = digits(u, &[3, qs.len() as u64, positions as u64, vnum.len() as u64, progs.len() as u64]);
        let (text, f) = progs[d[4]];
        let Ok(tc) = load(text, &sigs, DEFAULT_BUDGET) else { return };
        let qv = qs[d[1]];
        let mut ans: Answer = vec![("Q".to_string(), qv), ("R".to_string(), V::Num(1))];
        let plain = ans.clone();
        ans.insert(d[2], ("V".to_string(), V::Num(vnum[d[3]])));
        // the first answer fixes the layout: with and without the entry for the declared signal
        let script = match d[0] {
            0 => vec![Step::Ans(ans)],
            1 => vec![Step::Ans(plain), Step::Ans(ans)],
            _ => vec![Step::Ans(plain)],
        };
        if d[0] == 2 {
            st.witness("renaming_declaration_under_Z_and_X");
        }
        let mut opts = RunOpts::new(10);
        opts.repeat_last = true;
        opts.continue_after_error = true;
        opts.know_declared = true;
        let o = run_loaded(&tc, &sigs, true, &script, &opts);
        st.evals += 1;
        st.nontrivial += 1;
        st.witness("driver_that_answers_for_the_declared_signal");
        let num = |v: V| match v {
            V::Num(n) => Some(n),
            _ => None,
        };
        let want = f(num(qv), Some(1));
        for (k, it) in o.items.iter().enumerate() {
            let bad = match it {
                ObsItem::Row(r) => r.outputs.iter().find(|x| x.name == "V").and_then(|x| match (want, x.output) {
                    (Some(w), V::Num(g)) if w == g => None,
                    (w, g) => Some(format!("the row carries V = {}, the declaration over this row's outputs gives {}", g.show(), w.map(|w| w.to_string()).unwrap_or("no value (it reads Z/X): an error item".into()))),
                }),
                ObsItem::Panic(p) => Some(format!("panic: {p}")),
                _ => {
                    st.witness("answer_naming_the_declared_signal_refused");
                    None
                }
            };
            if let Some(b) = bad {
                st.violation(if d[0] == 2 { "a declared signal differs from its declaration over the row's outputs (Z/X passed through, or a wrong value)" } else { "a declared signal takes the value the driver lists for it" }, u, format!("program:\n{text}the driver answers {:?} (repeated)\nitem {k}: {b}", script.last()), || dyn_replay(text, &sigs, true, &script, &opts, vec!["rows whose V is the declaration over the row's outputs, or error items".into()], &o, &b));
                return;
            }
        }
    })
}

/// A declaration that reads no output leaves the test static: the rows of `try_iter_static` carry
/// the declared signal like every other expected entry (name and expected value of each entry equal
/// those of a dynamic run's row).
pub fn static_rows_part(deadline: &Deadline) -> Stats {
    use crate::driver::Step;
    let texts = [
        "A K\ndeclare K = 2 + 3;\n1 5\n2 X\nC 7\n3 Z\n4 (0-1)\n",
        "A Q\ndeclare K = 7;\n1 X\nloop(i,2)\n(i) 1\nend loop\n",
        "A W K Q\ndeclare K = 1 << 40;\ndeclare W = 5 + 1;\n1 X (0-1) 3\n",
        "K A\nlet K = 4;\ndeclare K = 9;\n(K) 1\nX (K)\n",
    ];
    let sigs = sigs();
    par_range("static rows of tests with declarations that read no output: 4 programs", texts.len() as u64, deadline, |u, st| {
        let text = texts[u as usize];
        let Ok(tc) = load(text, &sigs, DEFAULT_BUDGET) else {
            st.violation("construction", (20 << 40) + u, format!("{text}does not load"), || json!({"kind": "none", "text": text, "expected": ["loads"], "observed": ["does not load"]}));
            return;
        };
        st.evals += 1;
        st.nontrivial += 1;
        st.witness("static_rows_of_a_test_with_a_declaration");
        let script = vec![Step::Ans(vec![("Q".into(), V::Num(3)), ("R".into(), V::Num(1))])];
        let mut opts = RunOpts::new(16);
        opts.repeat_last = true;
        let dynamic = run_loaded(&tc, &sigs, true, &script, &opts);
        let want: Vec<Vec<(String, V)>> = dynamic.items.iter().filter_map(|i| if let ObsItem::Row(r) = i { Some(r.outputs.iter().map(|o| (o.name.clone(), o.expected)).collect()) } else { None }).collect();
        let got = match run_static(&tc, 16, 1, DEFAULT_BUDGET) {
            StaticObs::Rows(rows, _) => rows.into_iter().filter_map(|r| r.ok()).map(|r| r.expected).collect::<Vec<_>>(),
            other => {
                st.violation("static iteration of a test whose declarations read no output", (20 << 40) + u, format!("{text}try_iter_static: {other:?}"), || json!({"kind": "static", "text": text, "signals": sigs_json(&sigs), "expected": ["static rows"], "observed": [format!("{other:?}")]}));
                return;
            }
        };
        // the first program's expected entries written out: a number, X, the three rows of the clock cycle
        // (two of them unchecked), Z - a declared signal can be expected to be Z like any other -, -1 on 64 bits
        if u == 0 {
            let lit: Vec<Vec<(String, V)>> = vec![vec![("K".into(), V::Num(5))], vec![("K".into(), V::X)], vec![], vec![], vec![("K".into(), V::Num(7))], vec![("K".into(), V::Z)], vec![("K".into(), V::Num(-1))]];
            let dynk: Vec<Vec<(String, V)>> = want.iter().map(|r| r.iter().filter(|(n, _)| n == "K").cloned().collect()).collect();
            if dynk != lit {
                let k = dynk.iter().zip(lit.iter()).position(|(a, b)| a != b).unwrap_or(dynk.len().min(lit.len()));
                st.violation("expected entry of a declared signal differs from its column", (21 << 40) + u, format!("{text}row {k}: the column K gives {:?}, the row's expected entry is {:?}", lit.get(k), dynk.get(k)), || json!({"kind": "static", "text": text, "signals": sigs_json(&sigs), "expected": [format!("{:?}", lit.get(k))], "observed": [format!("{:?}", dynk.get(k))]}));
                return;
            }
        }
        if want != got {
            let k = want.iter().zip(got.iter()).position(|(a, b)| a != b).unwrap_or(want.len().min(got.len()));
            st.violation("static rows differ from the dynamic rows in their expected entries", (20 << 40) + u, format!("{text}row {k}: dynamic run has expected entries {:?}, the static row {:?}", want.get(k), got.get(k)), || json!({"kind": "static", "text": text, "signals": sigs_json(&sigs), "expected": [format!("{:?}", want.get(k))], "observed": [format!("{:?}", got.get(k))]}));
        }
    })
}

pub fn pushed_signal_part(deadline: &Deadline) -> Stats {
    use crate::driver::Step;
    use crate::props::util::*;
    let texts = [
        "A Q V\ndeclare V = Q + 1;\nlet Q = 9;\n1 X X\n2 1 3\nloop(R,2)\n(R) X X\nend loop\n",
        "A V\nlet R = 5;\ndeclare V = Q * 2 + R;\n1 X\nC 7\n",
        "A Q\ndeclare W = ite(R, Q, 7);\nloop(Q,2)\nlet R = 0;\n(Q) X\nend loop\n",
    ];
    let sigs = sigs();
    let extras: Vec<Vec<Sig>> = vec![vec![Sig::out("Zx", 4)], vec![Sig::inp("Zi", 4, 1)], vec![Sig::out("Q_out", 4), Sig::inp("V", 4, 0)], vec![Sig::bidir("Zb", 4, V::Z), Sig::out("Zx", 1)]];
    par_range("pins pushed onto the signals field of a loaded test: 3 programs with shadowing variables x 4 pushed lists x 4 answers", (texts.len() * extras.len() * 4) as u64, deadline, |u, st| {
        let d = digits(u, &[4, extras.len() as u64, texts.len() as u64]);
        let text = texts[d[2]];
        let Ok(plain) = load(text, &sigs, DEFAULT_BUDGET) else { return };
        let mut pushed = plain.clone();
        for e in &extras[d[1]] {
            pushed.signals.push(e.to_real());
        }
        let ans: Answer = [vec![("Q", V::Num(2)), ("R", V::Num(1))], vec![("Q", V::Num(0)), ("R", V::Num(0))], vec![("R", V::Num(3)), ("Q", V::Num(5))], vec![("Q", V::Z), ("R", V::Num(1))]][d[0]].iter().map(|(n, v)| (n.to_string(), *v)).collect();
        let script = vec![Step::Ans(ans)];
        let mut opts = RunOpts::new(14);
        opts.repeat_last = true;
        opts.continue_after_error = true;
        let a = run_loaded(&plain, &sigs, true, &script, &opts);
        let b = run_loaded(&pushed, &sigs, true, &script, &opts);
        st.evals += 1;
        st.nontrivial += 1;
        st.witness("pins_pushed_onto_the_signals_field_of_a_loaded_test");
        if a.items != b.items || a.init != b.init {
            let k = a.items.iter().zip(b.items.iter()).position(|(x, y)| x != y).unwrap_or(0);
            st.violation("rows change when further pins are pushed onto the signals field of a loaded test", u, format!("program:\n{text}pushed: {}\nitem {k} without the push: {}\nitem {k} with the push: {}", extras[d[1]].iter().map(|s| s.show()).collect::<Vec<_>>().join(", "), a.items.get(k).map(|i| i.brief()).unwrap_or_default(), b.items.get(k).map(|i| i.brief()).unwrap_or_default()), || dyn_replay(text, &sigs, true, &script, &opts, obs_items_brief(&a), &b, "differs from the test without the pushed pins"));
        }
    })
}

pub fn run(tier: Tier, seed: u64) -> i32 {
    let started = Instant::now();
    let deadline = Deadline::new(tier.wall_cap());
    let sigs = sigs();
    let q = || name("Q");
    let rr = || name("R");
    let vdecls: Vec<Option<Expr>> = vec![
        None,
        Some(bin(BinOp::Add, q(), lit(1))),
        Some(bin(BinOp::Add, bin(BinOp::Mul, q(), lit(2)), rr())),
        Some(lit(7)),
        Some(group(bin(BinOp::Shl, q(), lit(60)))),
        // outputs read inside the arguments of a function
        Some(bin(BinOp::Add, ite(rr(), q(), lit(7)), ite(lit(0), lit(1), rr()))),
    ];
    // Q & R and Q * R: a zero left operand must not hide a Z/X right operand (evaluation is strict)
    let wdecls: Vec<Option<Expr>> = vec![None, Some(un(UnOp::Not, rr())), Some(bin(BinOp::Eq, q(), rr())), Some(bin(BinOp::And, q(), rr())), Some(bin(BinOp::Mul, q(), bin(BinOp::Shl, rr(), q())))];
    // the last header has a column V_out, which belongs to the real output of that name and says
    // nothing about the virtual signal V
    let headers: Vec<Vec<&str>> = vec![vec!["A", "Q", "V", "W"], vec!["A", "V"], vec!["A", "Q"], vec!["A", "W", "Q"], vec!["A", "V_out", "Q"]];
    let mut sigs_vout = sigs.clone();
    sigs_vout.push(Sig::out("V_out", 4));
    // -8 and 300 do not fit the 4-bit outputs: a virtual signal is computed from what the driver returned
    let vals: Vec<V> = tier.pick(vec![V::Num(0), V::Num(1), V::Num(-8), V::Z], vec![V::Num(0), V::Num(1), V::Num(2), V::Num(-8), V::Z, V::X]);
    let rvals: Vec<V> = tier.pick(vec![V::Num(0), V::Num(1), V::Num(-8), V::X], vec![V::Num(0), V::Num(1), V::Num(300), V::Z, V::X]);
    let mut menu = vec![];
    for &a in &vals {
        for &b in &rvals {
            menu.push(MenuItem::ans(vec![("Q".into(), a), ("R".into(), b)]));
        }
    }
    let menu_vout: Vec<MenuItem> = vals.iter().flat_map(|&a| rvals.clone().into_iter().map(move |b| MenuItem::ans(vec![("Q".into(), a), ("R".into(), b), ("V_out".into(), V::Num(5))]))).collect();
    let l = |n: i64| Entry::Lit(n, Radix::Dec);
    let mut cases = vec![];
    let mut nprog = 0u64;
    for (vi, vd) in vdecls.iter().enumerate() {
        for (wi, wd) in wdecls.iter().enumerate() {
            if vd.is_none() && wd.is_none() {
                continue;
            }
            for placement in 0..5 {
                for shadow in 0..5 {
                    for (hi, header) in headers.iter().enumerate() {
                        // quick tier: the function-argument declaration with two W declarations, the
                        // V_out header with two placements
                        if tier == Tier::Quick && ((vi == 5 && wi > 1) || (hi == 4 && placement > 1)) {
                            continue;
                        }
                        // rows for this header
                        let entry = |col: &str, rowno: usize| -> Entry {
                            match (col, rowno) {
                                ("A", n) => l(n as i64 + 1),
                                ("Q", 1) => l(1),
                                ("Q", _) => Entry::X,
                                ("V", 0) => Entry::X,
                                ("V", 1) => Entry::Paren(bin(BinOp::Sub, lit(0), lit(2))),
                                ("V", _) => Entry::Paren(name("a")),
                                ("V_out", 1) => l(5),
                                ("V_out", 2) => l(4),
                                ("W", 1) => l(0),
                                ("W", 2) => l(1),
                                _ => Entry::X,
                            }
                        };
                        let mk_row = |n: usize| Stmt::Row(header.iter().map(|c| entry(c, n)).collect());
                        let clock_row = Stmt::Row(header.iter().map(|c| if *c == "A" { Entry::C } else { Entry::X }).collect());
                        let mut decls = vec![];
                        if let Some(e) = vd {
                            decls.push(Stmt::Declare("V".into(), e.clone()));
                        }
                        if let Some(e) = wd {
                            decls.push(Stmt::Declare("W".into(), e.clone()));
                        }
                        // row 2 twice: a checked row whose inputs all repeat the previous row's
                        let mut rows = vec![mk_row(0), mk_row(1), mk_row(2), mk_row(2), clock_row];
                        let mut body = vec![Stmt::Let("a".into(), lit(2))];
                        // shadowing variables around the rows
                        match shadow {
                            1 => body.push(Stmt::Let("Q".into(), lit(9))),
                            3 => body.push(Stmt::Let("V".into(), lit(3))),
                            _ => {}
                        }
                        match placement {
                            0 => {
                                body.extend(decls.clone());
                            }
                            1 => {
                                let tail = rows.split_off(2);
                                rows.extend(decls.clone());
                                rows.extend(tail);
                            }
                            2 => rows.extend(decls.clone()),
                            3 => {
                                // inside a loop body
                                rows.insert(1, Stmt::Loop("j".into(), lit(1), decls.clone()));
                            }
                            _ => {
                                // first declaration before the rows, the second after them
                                if decls.len() < 2 {
                                    continue;
                                }
                                body.push(decls[1].clone());
                                rows.push(decls[0].clone());
                            }
                        }
                        match shadow {
                            2 => body.push(Stmt::Loop("Q".into(), lit(2), rows)),
                            4 => body.push(Stmt::Loop("i".into(), lit(1), {
                                let mut b = vec![Stmt::Let("R".into(), lit(1))];
                                b.extend(rows);
                                b
                            })),
                            _ => body.extend(rows),
                        }
                        let prog = Program { header: header.iter().map(|s| s.to_string()).collect(), body };
                        let (sigs, menu) = if header.contains(&"V_out") { (&sigs_vout, &menu_vout) } else { (&sigs, &menu) };
                        if bind_judgement(&prog, sigs).is_err() {
                            continue;
                        }
                        nprog += 1;
                        // one answer with the wrong number of outputs somewhere in the history; the caller carries on
                        if placement == 0 && hi == 0 && matches!(shadow, 1 | 2 | 4) && vi >= 1 && wi <= 1 {
                            let mut m2 = menu.clone();
                            m2.truncate(4);
                            m2.push(MenuItem { step: crate::driver::Step::Ans(vec![("Q".into(), V::Num(1))]), deviation: true, label: "only Q".into() });
                            m2.push(MenuItem { step: crate::driver::Step::Ans(vec![]), deviation: true, label: "no outputs".into() });
                            let mut c = Case::new(&format!("V#{vi} W#{wi} shadow {shadow}, one answer of the wrong length"), prog.clone(), sigs.clone(), true, menu.iter().take(4).cloned().collect(), m2, 18);
                            c.continue_after_call_errors = true;
                            c.dev_budget = 1;
                            cases.push(c);
                        }
                        // a driver that supplies no outputs at all: a declared signal that reads none has its value all the same
                        if vi == 3 && wi == 0 && placement == 0 && shadow == 0 && (hi == 1 || hi == 2) {
                            let none = vec![MenuItem::ans(vec![])];
                            cases.push(Case::new(&format!("V = 7, header {header:?}, driver without outputs"), prog.clone(), sigs.clone(), true, none.clone(), none, 18));
                        }
                        for ov in [true, false] {
                            if !ov && (vi + wi + placement + shadow + hi) % 5 != 0 {
                                continue;
                            }
                            let mut c = Case::new(&format!("V#{vi} W#{wi} placement {placement} shadow {shadow} header {header:?} {}", if ov { "Ov" } else { "Fw" }), prog.clone(), sigs.clone(), ov, menu.clone(), menu.clone(), 18);
                            c.continue_after_call_errors = true;
                            // the caller looks at vars() after every item (a read-only call)
                            c.collect_vars = shadow != 0 && (vi + wi) % 2 == 0;
                            cases.push(c);
                        }
                    }
                }
            }
        }
    }
    // a bidirectional signal is an output too: a declaration may read it (the driver reports it)
    {
        let sg = vec![Sig::inp("A", 4, 0), Sig::bidir("D", 4, V::Num(3)), Sig::out("Q", 4)];
        let body = vec![
            Stmt::Declare("V".into(), bin(BinOp::Add, name("D"), lit(1))),
            Stmt::Declare("W".into(), bin(BinOp::Sub, name("Q"), name("D"))),
            Stmt::Row(vec![l(1), l(2), Entry::X, Entry::X, Entry::X]),
            Stmt::Row(vec![l(2), Entry::Z, l(3), l(4), Entry::X]),
            Stmt::Let("D".into(), lit(9)),
            Stmt::Row(vec![Entry::C, Entry::Paren(name("D")), Entry::X, Entry::X, l(0)]),
        ];
        let prog = Program { header: vec!["A".into(), "D".into(), "D_out".into(), "V".into(), "W".into()], body };
        let mut m3 = vec![];
        for dv in [V::Num(0), V::Num(5), V::Z] {
            for qv in [V::Num(1), V::Num(7)] {
                m3.push(MenuItem::ans(vec![("D".into(), dv), ("Q".into(), qv)]));
                m3.push(MenuItem::ans(vec![("Q".into(), qv), ("D".into(), dv)]));
            }
        }
        // (the layout is fixed by the first answer: two cases, one per order)
        for order in 0..2 {
            let menu: Vec<MenuItem> = m3.iter().skip(order).step_by(2).cloned().collect();
            let mut c = Case::new(&format!("declarations over a bidirectional signal, driver order {order}"), prog.clone(), sg.clone(), true, menu.clone(), menu, 10);
            c.continue_after_call_errors = true;
            c.collect_vars = true;
            cases.push(c);
        }
    }
    // far beyond the enumerated scope: 70 declarations
    {
        let mut body: Vec<Stmt> = (0..70).map(|j| Stmt::Declare(format!("D{j}"), bin(BinOp::Add, bin(BinOp::Mul, name("Q"), lit(j)), if j % 2 == 0 { name("R") } else { lit(1) }))).collect();
        body.push(Stmt::Row(vec![Entry::Lit(1, Radix::Dec), Entry::X, Entry::Lit(3, Radix::Dec)]));
        body.push(Stmt::Row(vec![Entry::Lit(2, Radix::Dec), Entry::Lit(1, Radix::Dec), Entry::X]));
        let prog = Program { header: vec!["A".into(), "Q".into(), "D69".into()], body };
        let small: Vec<MenuItem> = menu.iter().step_by(3).cloned().collect();
        let mut c = Case::new("seventy declarations", prog, sigs.clone(), true, small.clone(), small, 6);
        c.continue_after_call_errors = true;
        cases.push(c);
    }
    // thorough: the same cases, cut at depth 3, re-explored without merging
    let slice: Vec<Case> = if tier == Tier::Thorough {
        cases
            .iter()
            .step_by(37)
            .map(|c| {
                let mut d = Case::new(&c.name, c.prog.clone(), c.sigs.clone(), c.ov, c.init_menu.clone(), c.menu.clone(), 3);
                d.continue_after_call_errors = true;
                d
            })
            .collect()
    } else {
        vec![]
    };
    // the small shared parts first (they take a second; the exploration below may use the whole wall cap)
    let mut parts = crate::props::c13::api_use_part(&deadline);
    parts.merge(cloned_signal_list_part(&deadline));
    parts.merge(pushed_signal_part(&deadline));
    parts.merge(driver_answers_for_declared_part(&deadline));
    parts.merge(static_rows_part(&deadline));
    let ncases = cases.len();
    let nshadow = cases.iter().filter(|c| c.name.contains("shadow 1") || c.name.contains("shadow 2") || c.name.contains("shadow 4")).count();
    let res = explore(cases, oracle(), true, &deadline);
    let mut st = res.stats;
    st.witness_n("program_with_variable_named_like_an_output", nshadow as u64);
    validate_key(&mut st, &res.keys, slice, oracle(), &deadline);
    st.nontrivial = st.states;
    st.space("programs (declaration set x placement x shadowing x header, bind-accepted)", nprog);
    st.sample(|| json!({"cases": ncases, "example_program": "A Q V W\nlet a = 2 ;\nlet Q = 9 ;\ndeclare V = Q * 2 + R ;\ndeclare W = ! R ;\n1 X X X\n2 1 1 0\n3 X ( a ) 1\nC X X X\n", "answers": "Q,R in {0,1,2,Z,X} per output-reading call"}));
    let meta = CheckMeta {
        id: "C14",
        tier,
        seed,
        rule: "explicit-state BFS (stateright): every declaration set (V in {none, Q+1, Q*2+R, 7, (Q<<60), ite(R,Q,7)+ite(0,1,R)} x W in {none, !R, Q=R, Q&R, Q*(R<<Q)}) x 5 placements (before, between, after the rows, inside a loop body, split) x 5 shadowing variants (none, let Q, rows inside loop(Q,2), let V, let R inside a loop) x 5 headers (virtual columns present / absent / reordered / a V_out column of a real output) that bind; five source rows incl. a repeated row and a clock row; every output-reading call answers (Q,R) in {0,1,-8,Z} x {0,1,-8,X} (quick) / {0,1,2,-8,Z,X} x {0,1,300,Z,X} (thorough) so every pair of consecutive answers is a transition; the caller carries on after an error item; distinct_nontrivial = unique states".into(),
        assumptions: vec![
            "reference interpreter evaluates each declaration over the answer of the same call with no variables visible; virtual entries are matched by name (their mutual order is C15's)".into(),
        ],
        required_witnesses: vec!["row_with_virtual_signal", "virtual_signal_with_expected_column", "virtual_signal_over_Z_or_X_is_an_error_item", "c_expansion", "program_with_variable_named_like_an_output", "row_with_an_answer_of_the_wrong_length", "signal_list_cloned_from_a_loaded_test", "pins_pushed_onto_the_signals_field_of_a_loaded_test"],
        exhaustive_note: "every reachable state for every case".into(),
        e1: true,
    };
    st.merge(parts);
    finish(meta, st, started)
}
