//! C13 — driver failures and contract violations surface as errors, never as wrong rows
//! (DESIGN §6/C13). Explicit-state exploration (E1) with a deviation budget (one in the plan; 3-6 as built): at
//! every call index the driver may fail, or depart from its first output layout in every
//! listed way; the caller carries on afterwards so that later rows are seen too.

use crate::compare::*;
use crate::driver::Step;
use crate::e1::*;
use crate::engine::*;
use crate::model::*;
use crate::props::util::*;
use crate::refsem::*;
use crate::subject::*;
use serde_json::json;
use std::sync::Arc;
use std::time::Instant;

fn value_of(name: &str) -> V {
    V::Num(match name {
        "Q" => 1,
        "R" => 2,
        "S" => 3,
        "D" => 4,
        "D_out" => 5,
        "q" => 6,
        "B" => 1,
        "C" => 2,
        "BC" => 3,
        "P" => 4,
        "PP" => 5,
        "Zjunk" => 9,
        _ => 7,
    })
}

fn oracle() -> Oracle {
    Arc::new(|seen: &Seen<'_>, st: &mut Stats| {
        let o = seen.obs;
        let r = seen.reference;
        let fail = |m: String| Some((m.split(':').next().unwrap_or("?").to_string(), m));
        let proj = Proj { input_values: true, expected: true, output: true, checked_kind: true, lines: false, vars: false, verdicts: false };
        let dev = seen.deviation_call;
        let Some(k) = seen.item else {
            // construction
            return match (seen.script.first(), &o.init) {
                (Some(Step::Fault(id)), ObsInit::DriverErr(got)) if id == got => {
                    st.witness("fault_at_the_constructor_call");
                    None
                }
                (Some(Step::Fault(id)), other) => fail(format!("constructor fault: the initial call failed with error #{id}; try_iter returned {}", other.brief())),
                (_, init) if init_matches(&r.init, init) => None,
                (_, init) => fail(format!("construction: expected {:?}, got {}", r.init, init.brief())),
            };
        };
        let Some(item) = o.items.get(k) else { return None };
        // a first answer that also holds an entry for a signal the test does not know: whether such a
        // layout is served is not specified (rows or error items), but a deviation from it is an error
        // item like any other, a returned row attributes correctly, and nothing panics
        let foreign_first = matches!(seen.script.first(), Some(Step::Ans(a)) if a.iter().any(|(n, _)| n == "Zjunk"));
        if let ObsItem::Panic(p) = item {
            return fail(format!("panic: next() panicked for item {k}: {p}"));
        }
        let call_idx = match (o.calls_after.get(k), o.calls_after.get(k + 1)) {
            (Some(a), Some(b)) if b > a => Some(b - 1),
            _ => None,
        };
        // all calls made during this next()
        let calls_of_item = match (o.calls_after.get(k), o.calls_after.get(k + 1)) {
            (Some(a), Some(b)) => *a..*b,
            _ => 0..0,
        };
        // every returned row attributes to each signal only what the driver reported for it in that call
        if let (ObsItem::Row(row), Some(ci)) = (item, call_idx) {
            if let Some(ans) = o.log.get(ci).and_then(|c| c.answer.as_ref()) {
                for e in &row.outputs {
                    if e.is_virtual {
                        continue;
                    }
                    let reported: Vec<V> = ans.iter().filter(|(n, _)| n == &e.name).map(|x| x.1).collect();
                    let ok = if reported.is_empty() { e.output == V::X } else { reported.contains(&e.output) };
                    if !ok {
                        return fail(format!("attribution: row {k} reports {} = {} but the driver reported {:?} for that signal in this call (answer {:?})", e.name, e.output.show(), reported.iter().map(|v| v.show()).collect::<Vec<_>>(), ans));
                    }
                }
                st.witness("returned_row_attribution_checked");
            }
        }
        match dev {
            // no deviation so far: identical to the fault-free run
            None if foreign_first && matches!(item, ObsItem::Runtime(_)) => {
                st.witness("first_answer_with_an_entry_for_an_unknown_signal");
                None
            }
            None => match r.items.get(k) {
                Some(ri) => item_mismatch(ri, item, proj, None, None).and_then(|m| fail(format!("rows before the fault: item {k}: {m}"))),
                None => None,
            },
            Some(_) if seen.deviation_calls.iter().any(|d| calls_of_item.contains(d)) => {
                let d = *seen.deviation_calls.iter().find(|d| calls_of_item.contains(d)).unwrap();
                if Some(d) != dev {
                    st.witness("second_deviation_of_a_history");
                }
                // this item's call is the deviating one
                match &seen.script[d] {
                    Step::Fault(id) => {
                        let rw = o.log.get(d).map(|c| c.rw).unwrap_or(true);
                        st.witness(if rw { "fault_at_an_output_reading_call" } else { "fault_at_a_write_only_call" });
                        if *item != ObsItem::DriverErr(*id) {
                            return fail(format!("fault: the call for item {k} failed with error #{id}; the item is {}", item.brief()));
                        }
                        if calls_of_item.len() != 1 {
                            return fail(format!("fault: after the failed call the same next() made {} further driver calls", calls_of_item.len() - 1));
                        }
                        None
                    }
                    Step::Ans(a) => {
                        let checked = matches!(r.items.get(k), Some(RefItem::Row(rr)) if rr.checked) || matches!(r.items.get(k), Some(RefItem::VirtErr(_)));
                        if !checked {
                            return None;
                        }
                        st.witness("layout_deviation_at_a_checked_row");
                        if !matches!(item, ObsItem::Runtime(_)) {
                            return fail(format!("layout deviation accepted: in the call for row {k} the driver answered {:?}, departing from its first layout; the item is {}", a, item.brief()));
                        }
                        None
                    }
                }
            }
            // after the deviations: the rows are those the program prescribes, computed from what the
            // driver returned (by name) in the latest output-reading call - the deviating answer included
            Some(_) => match r.items.get(k) {
                Some(ri @ RefItem::Row(_)) if item.is_row() => {
                    st.witness("row_after_a_deviation_compared");
                    let p2 = Proj { input_values: true, expected: true, output: false, checked_kind: true, lines: false, vars: false, verdicts: false };
                    item_mismatch(ri, item, p2, None, None).and_then(|m| fail(format!("rows after the deviation: item {k}: {m}")))
                }
                _ => None,
            },
        }
    })
}

struct P {
    name: &'static str,
    header: Vec<&'static str>,
    body: Vec<Stmt>,
    sigs: Vec<Sig>,
}

fn programs() -> Vec<P> {
    let l = |n: i64| Entry::Lit(n, Radix::Dec);
    let std = || vec![Sig::inp("A", 4, 0), Sig::inp("CLK", 1, 0), Sig::out("Q", 4), Sig::out("R", 4), Sig::bidir("S", 4, V::Z)];
    let perm = || vec![Sig::bidir("S", 4, V::Z), Sig::out("R", 4), Sig::inp("CLK", 1, 0), Sig::out("Q", 4), Sig::inp("A", 4, 0)];
    let row = |es: Vec<Entry>| Stmt::Row(es);
    vec![
        P { name: "flat, header A Q", header: vec!["A", "Q"], body: vec![row(vec![l(1), Entry::X]), row(vec![l(2), l(1)]), row(vec![l(3), Entry::X])], sigs: std() },
        P { name: "clock rows", header: vec!["A", "CLK", "Q", "R"], body: vec![row(vec![l(1), Entry::C, l(1), l(2)]), row(vec![l(2), Entry::C, Entry::X, Entry::X])], sigs: std() },
        P { name: "X and C", header: vec!["A", "CLK", "Q", "R"], body: vec![row(vec![Entry::X, Entry::C, l(1), Entry::X])], sigs: perm() },
        P { name: "loop", header: vec!["A", "Q"], body: vec![Stmt::Loop("i".into(), lit(3), vec![row(vec![Entry::Paren(name("i")), Entry::X])])], sigs: std() },
        P { name: "reads device outputs", header: vec!["A", "Q"], body: vec![Stmt::Let("t".into(), name("Q")), row(vec![Entry::Paren(name("t")), Entry::X]), row(vec![Entry::Paren(bin(BinOp::Add, name("Q"), name("R"))), l(1)])], sigs: std() },
        P { name: "virtual signal", header: vec!["A", "Q", "V"], body: vec![Stmt::Declare("V".into(), bin(BinOp::Add, name("Q"), name("R"))), row(vec![l(1), l(1), l(3)]), row(vec![l(2), Entry::X, Entry::X])], sigs: std() },
        P { name: "bidirectional in the header", header: vec!["A", "S", "S_out"], body: vec![row(vec![l(1), Entry::Z, l(3)]), row(vec![l(2), l(1), Entry::X])], sigs: std() },
        P { name: "no output in the header", header: vec!["A"], body: vec![row(vec![l(1)]), row(vec![l(2)]), row(vec![l(3)])], sigs: std() },
        P { name: "repeat clock row", header: vec!["A", "CLK", "R"], body: vec![Stmt::Repeat(lit(2), vec![l(1), Entry::C, l(2)])], sigs: perm() },
        P { name: "failing expectations", header: vec!["A", "Q", "R"], body: vec![row(vec![l(1), l(9), Entry::Z]), row(vec![l(1), l(1), l(2)])], sigs: std() },
        P { name: "header A R, permuted list", header: vec!["A", "R"], body: vec![row(vec![l(1), l(2)]), row(vec![l(2), Entry::X])], sigs: perm() },
        // a bidirectional signal next to a real output that is called like its expected column
        P { name: "bidirectional D next to a real output D_out", header: vec!["A", "D", "D_out", "Q"], body: vec![row(vec![l(1), Entry::Z, Entry::X, l(1)]), row(vec![l(2), l(3), l(5), Entry::X]), row(vec![Entry::Paren(bin(BinOp::Add, name("D_out"), name("D"))), Entry::Z, Entry::X, Entry::X])], sigs: vec![Sig::inp("A", 4, 0), Sig::bidir("D", 4, V::Z), Sig::out("D_out", 4), Sig::out("Q", 4)] },
        // output names whose concatenations coincide: B C BC = BC B C, P PP = PP P
        P { name: "outputs B, C and BC", header: vec!["A", "B", "BC"], body: vec![row(vec![l(1), l(1), l(3)]), row(vec![l(2), Entry::X, Entry::X]), row(vec![Entry::Paren(bin(BinOp::Sub, name("BC"), name("C"))), l(1), Entry::Z])], sigs: vec![Sig::inp("A", 4, 0), Sig::out("B", 4), Sig::out("C", 4), Sig::out("BC", 4)] },
        P { name: "outputs P and PP", header: vec!["A", "P", "PP"], body: vec![row(vec![l(1), l(4), l(5)]), row(vec![l(2), Entry::X, l(5)])], sigs: vec![Sig::inp("A", 4, 0), Sig::out("P", 4), Sig::out("PP", 4)] },
        // two outputs whose names differ only in letter case
        P { name: "outputs Q and q", header: vec!["A", "Q", "q"], body: vec![row(vec![l(1), l(1), l(6)]), row(vec![l(2), Entry::X, Entry::X]), row(vec![Entry::Paren(bin(BinOp::Sub, name("q"), name("Q"))), l(1), Entry::Z])], sigs: vec![Sig::inp("A", 4, 0), Sig::out("Q", 4), Sig::out("q", 4)] },
        // values that come back: 0 1 0 1 0 1 on A (an entry unchanged against the row before the previous one)
        P { name: "values that return", header: vec!["A", "Q"], body: (0..6).map(|j| row(vec![l(j % 2), if j % 3 == 0 { Entry::X } else { l(1) }])).collect(), sigs: std() },
        // the same row again and again, against a device that moves on its own
        P { name: "one row repeated", header: vec!["A", "Q", "R"], body: vec![Stmt::Repeat(lit(3), vec![l(1), Entry::X, Entry::X]), row(vec![l(1), l(1), Entry::X]), row(vec![l(1), Entry::X, l(2)])], sigs: std() },
        P { name: "six rows", header: vec!["A", "Q"], body: (0..6).map(|j| row(vec![l(j), if j % 2 == 0 { Entry::X } else { l(1) }])).collect(), sigs: std() },
    ]
}

/// All listed ways of departing from the layout `names`
fn deviations(names: &[String], all_outputs: &[String]) -> Vec<(String, Vec<String>)> {
    deviations_with_inputs(names, all_outputs, &[])
}

fn deviations_with_inputs(names: &[String], all_outputs: &[String], inputs: &[String]) -> Vec<(String, Vec<String>)> {
    let mut out: Vec<(String, Vec<String>)> = vec![];
    let n = names.len();
    // the whole answer rotated by one in either direction
    if n > 2 {
        let mut v = names.to_vec();
        v.rotate_left(1);
        out.push(("rotate left".into(), v));
        let mut v = names.to_vec();
        v.rotate_right(1);
        out.push(("rotate right".into(), v));
    }
    // an entry for a signal the test drives (a driver that reads back all pins), at either end and in the middle
    for i in inputs {
        let mut v = names.to_vec();
        v.push(i.clone());
        out.push((format!("append the input {i}"), v));
        let mut v = names.to_vec();
        v.insert(0, i.clone());
        out.push((format!("prepend the input {i}"), v));
        if n > 1 {
            let mut v = names.to_vec();
            v.insert(1, i.clone());
            out.push((format!("insert the input {i} behind the first entry"), v));
        }
    }
    for p in 0..n {
        let mut v = names.to_vec();
        v.remove(p);
        out.push((format!("drop entry {p}"), v));
    }
    if n > 1 {
        out.push(("empty answer".into(), vec![]));
    }
    let mut v = names.to_vec();
    v.push("Zjunk".into());
    out.push(("append a signal outside the test".into(), v));
    if n > 0 {
        let mut v = names.to_vec();
        v.push(names[0].clone());
        out.push(("append a copy of entry 0".into(), v));
        let mut v = names.to_vec();
        v.insert(0, names[n - 1].clone());
        out.push(("prepend a copy of the last entry".into(), v));
    }
    for o in all_outputs {
        if !names.contains(o) {
            let mut v = names.to_vec();
            v.push(o.clone());
            out.push((format!("append the unsupplied output {o}"), v));
        }
    }
    for p in 0..n.saturating_sub(1) {
        let mut v = names.to_vec();
        v[p + 1] = names[p].clone();
        out.push((format!("duplicate entry {p} over its right neighbour"), v));
        let mut v = names.to_vec();
        v[p] = names[p + 1].clone();
        out.push((format!("duplicate entry {} over its left neighbour", p + 1), v));
        let mut v = names.to_vec();
        v.swap(p, p + 1);
        out.push((format!("swap entries {p} and {}", p + 1), v));
    }
    for p in 0..n {
        for o in all_outputs.iter().chain(std::iter::once(&"Zjunk".to_string())) {
            if !names.contains(o) {
                let mut v = names.to_vec();
                v[p] = o.clone();
                out.push((format!("substitute {o} for entry {p}"), v));
            }
        }
    }
    out
}

/// One loaded `TestCase`, two uses in a row: drivers with different first layouts (every subset
/// of the outputs, and the full set reversed), with other values, with and without a
/// `write_input` of their own, and the static iteration. The second use must observe exactly
/// what it observes on a freshly loaded test (nothing may be remembered in the test).
pub fn reuse_part(deadline: &Deadline) -> Stats {
    let progs = programs();
    par_range("one loaded test used twice: every ordered pair of (first layout x values x driver variant | static iteration) over the 18 curated programs", progs.len() as u64, deadline, |u, st| {
        let p = &progs[u as usize];
        let prog = Program { header: p.header.iter().map(|s| s.to_string()).collect(), body: p.body.clone() };
        let text = text(&prog);
        let all_outputs: Vec<String> = p.sigs.iter().filter(|s| s.is_out()).map(|s| s.name.clone()).collect();
        let mut layouts: Vec<Vec<String>> = vec![];
        for mask in 0..(1u32 << all_outputs.len()) {
            layouts.push(all_outputs.iter().enumerate().filter(|(i, _)| mask >> i & 1 == 1).map(|(_, n)| n.clone()).collect());
        }
        let mut rev = all_outputs.clone();
        rev.reverse();
        layouts.push(rev);
        let mut uses = vec![];
        for (li, names) in layouts.iter().enumerate() {
            let ans: Answer = names.iter().map(|n| (n.clone(), value_of(n))).collect();
            uses.push(Use::dynamic(vec![Step::Ans(ans)], li % 2 == 0));
        }
        // other values, and a driver that fails once
        let full: Answer = all_outputs.iter().map(|n| (n.clone(), V::Num(1))).collect();
        uses.push(Use::dynamic(vec![Step::Ans(full.clone())], true));
        uses.push(Use::dynamic(vec![Step::Ans(full.clone()), Step::Fault(7), Step::Ans(full)], true));
        uses.push(Use { script: vec![], ov: true, static_iteration: true });
        let mut opts = RunOpts::new(24);
        opts.repeat_last = true;
        opts.continue_after_error = true;
        check_reuse_pairs(st, u, &format!("program '{}'", p.name), &text, &p.sigs, &uses, &opts);
    })
}

/// Unusual but legal ways of consuming the iterator: `nth(k)` / `skip` / `step_by` over the curated
/// programs, against a device that answers differently at every call, without and with one fault.
/// The defaults sent by the constructor are those the test holds when the iterator is made:
/// `TestCase::signals` is a public field, every input-capable signal's default is edited on a clone
/// of the loaded test (numbers that fit, numbers that do not, Z). The constructor's call carries
/// exactly the edited defaults, and the whole run equals that of a test loaded with them.
pub fn edited_defaults_part(deadline: &Deadline) -> Stats {
    use digital_test_runner as dtr;
    let progs = programs();
    par_range("defaults edited through the public signals field after loading: 18 curated programs x 3 editings x 2 driver variants", progs.len() as u64 * 6, deadline, |u, st| {
        let p = &progs[(u / 6) as usize];
        let ov = u % 2 == 0;
        let scheme = (u / 2) % 3;
        let prog = Program { header: p.header.iter().map(|s| s.to_string()).collect(), body: p.body.clone() };
        let text = text(&prog);
        let Ok(tc0) = load(&text, &p.sigs, DEFAULT_BUDGET) else { return };
        let mut tc2 = tc0.clone();
        let mut sigs2 = p.sigs.clone();
        for (k, (s2, real)) in sigs2.iter_mut().zip(tc2.signals.iter_mut()).enumerate() {
            let nv = match (scheme, k % 2) {
                (0, 0) => V::Num(1 + k as i64),
                (0, _) => V::Z,
                (1, _) => V::Num(200 + 31 * k as i64), // does not fit narrow signals: passed on as it is
                (_, 0) => V::Z,
                (_, _) => V::Num(0),
            };
            let iv = match nv {
                V::Num(n) => dtr::InputValue::Value(n),
                _ => dtr::InputValue::Z,
            };
            match &mut real.typ {
                dtr::SignalType::Input { default } => {
                    *default = iv;
                    s2.kind = Kind::In(nv);
                }
                dtr::SignalType::Bidirectional { default } => {
                    *default = iv;
                    s2.kind = Kind::Bidir(nv);
                }
                _ => {}
            }
        }
        let outs: Vec<String> = p.sigs.iter().filter(|s| s.is_out()).map(|s| s.name.clone()).collect();
        let script: Vec<Step> = (0..40usize).map(|j| Step::Ans(outs.iter().enumerate().map(|(i, n)| (n.clone(), V::Num(((j * (3 + 2 * i) + 1 + i) % 16) as i64))).collect())).collect();
        let mut opts = RunOpts::new(24);
        opts.continue_after_error = true;
        let edited = run_loaded(&tc2, &sigs2, ov, &script, &opts);
        st.evals += 1;
        st.nontrivial += 1;
        st.witness("defaults_edited_after_loading");
        let want0: Vec<(String, V, bool)> = sigs2.iter().filter(|s| s.is_in()).map(|s| (s.name.clone(), s.default().unwrap_or(V::Z), false)).collect();
        let got0 = edited.log.first().map(|c| (c.rw, c.inputs.clone()));
        let desc = |m: String| format!("program '{}':\n{text}signals as loaded: {}\ndefaults edited to: {}\n{m}", p.name, p.sigs.iter().map(|s| s.show()).collect::<Vec<_>>().join(", "), sigs2.iter().map(|s| s.show()).collect::<Vec<_>>().join(", "));
        if got0 != Some((true, want0.clone())) {
            let m = format!("constructor inputs: the first call is {got0:?}, expected the output-reading call with {want0:?}");
            st.violation("constructor inputs are not the defaults the test holds", u, desc(m.clone()), || dyn_replay(&text, &sigs2, ov, &script, &opts, vec![format!("{want0:?}")], &edited, &m));
            return;
        }
        if let Ok(fresh_tc) = load(&text, &sigs2, DEFAULT_BUDGET) {
            let fresh = run_loaded(&fresh_tc, &sigs2, ov, &script, &opts);
            if fresh.items != edited.items || fresh.log != edited.log {
                let k = fresh.items.iter().zip(edited.items.iter()).position(|(a, b)| a != b);
                let m = format!("calls per row / inputs: the run of the edited test differs from the run of a test loaded with those defaults (first differing item {k:?}: {:?} vs {:?}; calls {} vs {})", k.and_then(|k| edited.items.get(k)).map(|i| i.brief()), k.and_then(|k| fresh.items.get(k)).map(|i| i.brief()), edited.log.len(), fresh.log.len());
                st.violation("a test whose defaults were edited runs differently from one loaded with them", u, desc(m.clone()), || dyn_replay(&text, &sigs2, ov, &script, &opts, crate::compare::obs_items_brief(&fresh), &edited, &m));
            }
        }
    })
}

pub fn api_use_part(deadline: &Deadline) -> Stats {
    let progs = programs();
    par_range("iterator advanced with nth(1..3): 18 curated programs x 2 driver variants x {no fault, fault at call 1..6}", progs.len() as u64 * 2 * 7, deadline, |u, st| {
        let p = &progs[(u / 14) as usize];
        let ov = u % 2 == 0;
        let fault_at = ((u / 2) % 7) as usize;
        let prog = Program { header: p.header.iter().map(|s| s.to_string()).collect(), body: p.body.clone() };
        let text = text(&prog);
        let outs: Vec<String> = p.sigs.iter().filter(|s| s.is_out()).map(|s| s.name.clone()).collect();
        let script: Vec<Step> = (0..60usize)
            .map(|j| if fault_at > 0 && j == fault_at { Step::Fault(90) } else { Step::Ans(outs.iter().enumerate().map(|(i, n)| (n.clone(), V::Num(((j * (3 + 2 * i) + 1 + i) % 16) as i64))).collect()) })
            .collect();
        check_nth(st, u, &format!("program '{}', driver {} write_input, fault at call {}", p.name, if ov { "overrides" } else { "does not override" }, if fault_at > 0 { fault_at.to_string() } else { "none".into() }), &text, &p.sigs, ov, &script, 24);
        // a driver whose error type is std::io::Error: whatever the kind of the error, it is the item
        // of the row whose call failed, and that call is not repeated
        if ov {
            if let Ok(tc) = load(&text, &p.sigs, DEFAULT_BUDGET) {
                let ans: Answer = outs.iter().map(|n| (n.clone(), value_of(n))).collect();
                let clean = run_io_driver(&tc, &ans, usize::MAX, std::io::ErrorKind::Other, 24);
                // the deprecated name of try_iter is the same function
                // (also against a driver that leaves out the first / the last output: a missing output that
                // the program reads fails the construction through either name)
                let without_first: Answer = ans.iter().skip(1).cloned().collect();
                let without_last: Answer = ans.iter().take(ans.len().saturating_sub(1)).cloned().collect();
                for (f, ans) in [(usize::MAX, &ans), (fault_at, &ans), (usize::MAX, &without_first), (usize::MAX, &without_last)] {
                    let a = crate::subject::run_io_driver_via(&tc, ans, f, std::io::ErrorKind::Other, 24, false);
                    let b = crate::subject::run_io_driver_via(&tc, ans, f, std::io::ErrorKind::Other, 24, true);
                    st.evals += 1;
                    st.witness("run_iter_is_try_iter");
                    if a != b {
                        let pos = a.iter().zip(b.iter()).position(|(x, y)| x != y).unwrap_or(a.len().min(b.len()));
                        st.violation("run_iter (deprecated name) behaves differently from try_iter", u << 8 | 0xfe, format!("program '{}':\n{text}line {pos}: run_iter gives {:?}, try_iter gives {:?}", p.name, b.get(pos), a.get(pos)), || json!({"kind": "none", "text": text, "expected": a, "observed": b}));
                        return;
                    }
                }
                for kind in [std::io::ErrorKind::Interrupted, std::io::ErrorKind::WouldBlock, std::io::ErrorKind::TimedOut, std::io::ErrorKind::BrokenPipe, std::io::ErrorKind::UnexpectedEof, std::io::ErrorKind::Other] {
                    let got = run_io_driver(&tc, &ans, fault_at, kind, 24);
                    st.evals += 1;
                    st.witness("driver_with_io_errors");
                    // expected: the clean run with item number fault_at-1 replaced by the driver error (the
                    // constructor's if fault_at = 0), everything else and the call count unchanged
                    let mut want = clean.clone();
                    if fault_at == 0 {
                        want = vec![format!("constructor: driver error {kind:?}"), "calls: 1".to_string()];
                    } else if fault_at < clean.len() - 1 && clean[fault_at - 1].starts_with("row") {
                        want[fault_at - 1] = format!("driver error {kind:?}");
                    }
                    if got != want {
                        let pos = got.iter().zip(want.iter()).position(|(a, b)| a != b).unwrap_or(got.len().min(want.len()));
                        let both_rows = got.get(pos).map_or(false, |l| l.starts_with("row")) && want.get(pos).map_or(false, |l| l.starts_with("row"));
                        st.violation(if both_rows { "a row of a run with one failed call differs from the fault-free run" } else { "io::Error of the driver is not passed on as it is" }, u << 8 | kind as u64, format!("program '{}':\n{text}the driver's call {fault_at} fails with io::ErrorKind::{kind:?}\nline {pos}: got {:?}, expected {:?}\nall: {got:?}", p.name, got.get(pos), want.get(pos)), || json!({"kind": "none", "text": text, "expected": want, "observed": got}));
                        return;
                    }
                }
            }
        }
    })
}

pub fn run(tier: Tier, seed: u64) -> i32 {
    let started = Instant::now();
    let deadline = Deadline::new(tier.wall_cap());
    let mut cases = vec![];
    for p in programs() {
        let prog = Program { header: p.header.iter().map(|s| s.to_string()).collect(), body: p.body.clone() };
        let all_outputs: Vec<String> = p.sigs.iter().filter(|s| s.is_out()).map(|s| s.name.clone()).collect();
        // first layouts: every subset of the outputs in list order, and the full set reversed
        let mut layouts: Vec<Vec<String>> = vec![];
        for mask in 0..(1u32 << all_outputs.len()) {
            layouts.push(all_outputs.iter().enumerate().filter(|(i, _)| mask >> i & 1 == 1).map(|(_, n)| n.clone()).collect());
        }
        let mut rev = all_outputs.clone();
        rev.reverse();
        layouts.push(rev);
        // the full layout with an entry for a signal the test does not know, in front / inside / behind
        if !all_outputs.is_empty() {
            for pos in [0, all_outputs.len().div_ceil(2), all_outputs.len()] {
                let mut l = all_outputs.clone();
                l.insert(pos.min(l.len()), "Zjunk".to_string());
                if !layouts.contains(&l) {
                    layouts.push(l);
                }
            }
        }
        // every layout twice: each signal with a value of its own, and all signals with the same
        // value (a deviation that keeps the length then leaves the values, read by position, as they were)
        for (names, equal) in layouts.into_iter().flat_map(|l| [(l.clone(), false), (l, true)]) {
            let mk = |ns: &[String]| -> Answer { ns.iter().map(|n| (n.clone(), if equal { V::Num(5) } else { value_of(n) })).collect() };
            let normal = MenuItem::ans(mk(&names));
            let fault = MenuItem { step: Step::Fault(41), deviation: true, label: "fault".into() };
            let mut menu = vec![normal.clone(), fault.clone()];
            let inputs: Vec<String> = p.sigs.iter().filter(|s| s.is_in() && !s.is_out()).map(|s| s.name.clone()).take(1).collect();
            for (what, ns) in deviations_with_inputs(&names, &all_outputs, &inputs) {
                menu.push(MenuItem { step: Step::Ans(mk(&ns)), deviation: true, label: what });
            }
            let init_menu = vec![normal.clone(), MenuItem { step: Step::Fault(40), deviation: true, label: "fault".into() }];
            for ov in [true, false] {
                let mut c = Case::new(&format!("{} / first layout {names:?}{} / {}", p.name, if equal { " all values 5" } else { "" }, if ov { "Ov" } else { "Fw" }), prog.clone(), p.sigs.clone(), ov, init_menu.clone(), menu.clone(), 24);
                c.dev_budget = 2;
                c.continue_after_call_errors = true;
                c.extra_known = vec![Sig::out("Zjunk", 4)];
                c.w_menu = vec![MenuItem { step: Step::Fault(42), deviation: true, label: "fault at write-only call".into() }];
                cases.push(c);
            }
        }
    }
    // deviations per history: 3, and 4 in the programs whose rows differ most (thorough: 4 and 6);
    // the graphs are small (seconds), the programs have at most a dozen calls
    for c in cases.iter_mut() {
        let named = c.name.contains("flat") || c.name.contains("clock rows") || c.name.contains("virtual");
        c.dev_budget = match (tier, named) {
            (Tier::Quick, true) => 4,
            (Tier::Quick, false) => 3,
            (Tier::Thorough, true) => 6,
            (Tier::Thorough, false) => 4,
        };
    }
    let slice: Vec<Case> = if true {
        cases
            .iter()
            .step_by(5)
            .map(|c| {
                let mut d = Case::new(&c.name, c.prog.clone(), c.sigs.clone(), c.ov, c.init_menu.clone(), c.menu.clone(), c.max_depth);
                d.dev_budget = 1;
                d.continue_after_call_errors = true;
                d.extra_known = c.extra_known.clone();
                d.w_menu = c.w_menu.clone();
                d
            })
            .collect()
    } else {
        vec![]
    };
    let ncases = cases.len();
    let res = explore(cases, oracle(), true, &deadline);
    let mut st = res.stats;
    st.nontrivial = st.states;
    validate_key(&mut st, &res.keys, slice, oracle(), &deadline);
    st.merge(reuse_part(&deadline));
    st.merge(api_use_part(&deadline));
    st.merge(crate::props::c14::cloned_signal_list_part(&deadline));
    st.sample(|| json!({"cases": ncases, "deviation_kinds": deviations(&["Q".to_string(), "R".to_string(), "S".to_string()], &["Q".to_string(), "R".to_string(), "S".to_string()]).iter().map(|d| d.0.clone()).collect::<Vec<_>>()}));
    let meta = CheckMeta {
        id: "C13",
        tier,
        seed,
        rule: "explicit-state BFS (stateright): 18 curated programs x every first layout (each subset of the output-capable signals, and the full set reversed) x 2 driver variants; at every call index the environment may answer normally, fail (constructor, output-reading and write-only calls), or depart from the first layout in every listed way (drop each entry, empty answer, append a foreign signal / a copy / an unsupplied output, duplicate over either neighbour, swap neighbours, substitute every other signal at every position); deviation budget 3 per history, 4 for the flat / clock-row / virtual-signal programs (thorough: 4 and 6); the caller carries on after the error so that later rows are checked too; distinct_nontrivial = unique states".into(),
        assumptions: vec![
            "rows before the deviation are compared with the reference interpreter's fault-free run; the attribution rule is checked against the driver's own log for every returned row".into(),
            "a layout deviation in the discarded answer of a mid-clock call (driver without write_input override) is not specified by the property and is not injected".into(),
        ],
        required_witnesses: vec!["fault_at_the_constructor_call", "fault_at_an_output_reading_call", "fault_at_a_write_only_call", "layout_deviation_at_a_checked_row", "returned_row_attribution_checked", "one_loaded_test_used_twice_with_different_drivers", "second_deviation_of_a_history", "iterator_advanced_with_nth", "driver_with_io_errors", "row_after_a_deviation_compared"],
        exhaustive_note: "every call index x every deviation for every case".into(),
        e1: true,
    };
    finish(meta, st, started)
}
