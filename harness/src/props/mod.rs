pub mod c01;
pub mod c02;
pub mod c03;
pub mod c04;
pub mod c05;
pub mod c06;
pub mod c07;
pub mod c08;
pub mod c09;
pub mod c10;
pub mod c11;
pub mod c13;
pub mod c14;
pub mod c15;
pub mod c16;
pub mod c17;
pub mod c19;
pub mod c20;
pub mod util;

use crate::engine::Tier;

pub fn dispatch(id: &str, tier: Tier, seed: u64) -> Option<i32> {
    Some(match id {
        "C01" => c01::run("C01", tier, seed),
        "C18" => c01::run("C18", tier, seed),
        "C02" => c02::run(tier, seed),
        "C03" => c03::run(tier, seed),
        "C04" => c04::run(tier, seed),
        "C05" => c05::run(tier, seed),
        "C06" => c06::run(tier, seed),
        "C07" => c07::run(tier, seed),
        "C08" => c08::run(tier, seed),
        "C09" => c09::run(c09::Mode::C09, tier, seed),
        "C12" => c09::run(c09::Mode::C12, tier, seed),
        "C10" => c10::run(tier, seed),
        "C11" => c11::run(tier, seed),
        "C13" => c13::run(tier, seed),
        "C14" => c14::run(tier, seed),
        "C15" => c15::run(tier, seed),
        "C19" => c19::run(tier, seed),
        "C16" => c16::run(tier, seed),
        "C17" => c17::run(tier, seed),
        "C20" => c20::run(tier, seed),
        _ => return None,
    })
}

/// Replay of non-"dynamic" kinds, implemented by the check that writes them.
pub fn replay_kind(kind: &str, j: &serde_json::Value) -> Option<Vec<String>> {
    match kind {
        "parse" => Some(c09::replay_parse(j)),
        "bind" => Some(c11::replay_bind(j)),
        "dig" => Some(c16::replay_dig(j)),
        "maporder" => Some(c15::replay_maporder(j)),
        "digorder" => Some(c15::replay_digorder(j)),
        "static" => Some(c15::replay_static(j)),
        "interleave" => Some(c15::replay_interleave(j)),
        "none" => Some(j["observed"].as_array().map(|a| a.iter().map(|x| x.as_str().unwrap_or("").to_string()).collect()).unwrap_or_default()),
        "layout" => Some(c20::replay_layout(j)),
        "reuse" => Some(util::replay_reuse(j)),
        "threads" => Some(c01::replay_threads(j)),
        "xcase" => Some(c05::replay_xcase(j)),
        "entry" => Some(c03::replay_entry(j)),
        "entry_points" => Some(c16::replay_entry_points(j)),
        _ => None,
    }
}
