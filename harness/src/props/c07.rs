//! C07 — values from the program are reduced to the width of the signal they drive
//! (DESIGN §6/C07). Every width 1..=64 x a boundary value set, on the input path, the
//! expected path, a bidirectional signal, a virtual signal, and on columns bound to two
//! signals of different widths.

use crate::compare::*;
use crate::driver::*;
use crate::engine::*;
use crate::model::*;
use crate::props::util::*;
use crate::refsem::*;
use crate::subject::*;
use serde_json::json;
use std::time::Instant;

pub fn boundary_values() -> Vec<i64> {
    let mut v: Vec<i64> = vec![0, 1, i64::MAX, i64::MIN, 0x5555_5555_5555_5555, 0xAAAA_AAAA_AAAA_AAAAu64 as i64];
    for k in 0..64u32 {
        let p = (1u64 << k) as i64;
        v.push(p);
        v.push(p.wrapping_sub(1));
        v.push(p.wrapping_neg());
        v.push(p.wrapping_neg().wrapping_sub(1));
    }
    v.sort();
    v.dedup();
    v
}

/// The boundary values plus runs of ones (`len` ones starting at bit `pos`: the values whose
/// reduction to a width cuts a run in two at every possible place) and a fixed list of mixed
/// constants (a linear congruential sequence written down once, not drawn at run time).
pub fn pattern_values(tier: Tier) -> Vec<i64> {
    let mut v = boundary_values();
    let lens: Vec<u32> = (2..=63).collect();
    for len in lens {
        for pos in 0..=(64 - len) {
            let ones = if len == 64 { u64::MAX } else { (1u64 << len) - 1 };
            v.push((ones << pos) as i64);
            v.push(!(ones << pos) as i64);
        }
    }
    let mut x: u64 = 0x0123_4567_89AB_CDEF;
    for _ in 0..tier.pick(64, 8192) {
        v.push(x as i64);
        x = x.wrapping_mul(6364136223846793005).wrapping_add(1442695040888963407);
    }
    v.sort();
    v.dedup();
    v
}

struct Case {
    name: String,
    sigs: Vec<Sig>,
    header: Vec<&'static str>,
    declare_v: bool,
    /// number of leading one-bit columns written as one bits(n, 5) entry
    bits_prefix: usize,
    /// the columns of a row carry different values
    mixed: bool,
}

fn cases() -> Vec<Case> {
    let mut out = vec![];
    for bits in 1..=64usize {
        out.push(Case {
            name: format!("width {bits}: input, output, bidirectional, virtual"),
            sigs: vec![Sig::inp("A", bits, 0), Sig::out("Q", bits), Sig::bidir("D", bits, V::Num(0)), Sig::out("R", 64)],
            header: vec!["A", "Q", "D", "D_out", "V"],
            declare_v: true,
            bits_prefix: 0,
            mixed: false,
        });
        out.push(Case {
            name: format!("width {bits}: other signal order, inputs with default Z"),
            sigs: vec![Sig::out("R", 64), Sig::bidir("D", bits, V::Z), Sig::out("Q", bits), Sig::inp_z("A", bits)],
            header: vec!["D_out", "V", "Q", "A", "D"],
            declare_v: true,
            bits_prefix: 0,
            mixed: false,
        });
    }
    // one column bound to two signals of different widths
    for (b1, b2) in [(4usize, 8usize), (8, 4), (1, 64), (64, 1), (63, 64), (64, 63), (3, 5), (33, 32)] {
        out.push(Case {
            name: format!("column A_out expected by Bidir A({b1}) and Out A_out({b2})"),
            sigs: vec![Sig::bidir("A", b1, V::Num(0)), Sig::out("A_out", b2), Sig::out("R", 64)],
            header: vec!["A", "A_out"],
            declare_v: false,
            bits_prefix: 0,
            mixed: false,
        });
        out.push(Case {
            name: format!("column A_out drives In A_out({b2}) and is expected by Bidir A({b1})"),
            sigs: vec![Sig::inp("A_out", b2, 0), Sig::out("R", 64), Sig::bidir("A", b1, V::Num(0))],
            header: vec!["A_out", "A"],
            declare_v: false,
            bits_prefix: 0,
            mixed: false,
        });
    }
    // values after a bits(n, ..) entry that spans n columns: columns and entries are out of step
    for bits in [3usize, 8, 32, 63, 64] {
        out.push(Case {
            name: format!("width {bits} after bits(4,5) over four one-bit inputs"),
            sigs: vec![Sig::inp("A3", 1, 0), Sig::inp("A2", 1, 0), Sig::inp("A1", 1, 0), Sig::inp("A0", 1, 0), Sig::inp("D", bits, 0), Sig::out("Q", bits), Sig::out("R", 64)],
            header: vec!["A3", "A2", "A1", "A0", "D", "Q"],
            declare_v: false,
            bits_prefix: 4,
            mixed: false,
        });
    }
    // signals of different widths side by side, every column of a row carrying a different value
    let ws = [1usize, 2, 4, 8, 31, 32, 33, 63, 64];
    for &wa in &ws {
        for &wb in &ws {
            for &wq in &ws {
                if wa == wb && wb == wq {
                    continue;
                }
                out.push(Case {
                    name: format!("mixed widths: In A({wa}), In B({wb}), Out Q({wq}), Bidir D({wb}), different values per column"),
                    sigs: if (wa + wb + wq) % 2 == 0 {
                        vec![Sig::inp("A", wa, 0), Sig::inp("B", wb, 0), Sig::out("Q", wq), Sig::bidir("D", wb, V::Num(0)), Sig::out("R", 64)]
                    } else {
                        vec![Sig::out("R", 64), Sig::out("Q", wq), Sig::bidir("D", wb, V::Num(0)), Sig::inp("B", wb, 0), Sig::inp("A", wa, 0)]
                    },
                    header: vec!["A", "Q", "B", "D_out", "D"],
                    declare_v: false,
                    bits_prefix: 0,
                    mixed: true,
                });
            }
        }
    }
    out
}

/// Headers of 65..=130 columns: an X or Z entry keeps its kind and a number is reduced to its own
/// signal's width in whatever column it stands (column j and column j +- 64 are different columns).
fn wide_header_cases(deadline: &Deadline) -> Stats {
    let ns = [65usize, 66, 70, 100, 130];
    par_range("headers of 65, 66, 70, 100, 130 columns x {inputs first, outputs first, alternating} : X / Z / out-of-range numbers in every column", ns.len() as u64 * 3, deadline, |idx, st| {
        let n = ns[(idx / 3) as usize];
        let arrangement = idx % 3;
        let is_in = |j: usize| match arrangement {
            0 => j < n / 2,
            1 => j >= n / 2,
            _ => j % 2 == 0,
        };
        let sigs: Vec<Sig> = (0..n).map(|j| if is_in(j) { Sig::inp(&format!("S{j}"), 1 + j % 5, 0) } else { Sig::out(&format!("S{j}"), 1 + j % 7) }).collect();
        let header: Vec<String> = (0..n).map(|j| format!("S{j}")).collect();
        let mut body = vec![];
        // row 1: out-of-range numbers everywhere; row 2: Z on inputs, X on outputs; row 3: numbers on
        // inputs, Z on outputs; rows 4..: X in one expected column at a time (64 columns from an input)
        body.push(Stmt::Row((0..n).map(|j| Entry::Lit(1000 + j as i64, Radix::Dec)).collect()));
        body.push(Stmt::Row((0..n).map(|j| if is_in(j) { Entry::Z } else { Entry::X }).collect()));
        body.push(Stmt::Row((0..n).map(|j| if is_in(j) { Entry::Lit(0x7f, Radix::Hex) } else { Entry::Z }).collect()));
        for x in (0..n).filter(|j| !is_in(*j)).filter(|j| (*j >= 64 && is_in(j - 64)) || (j + 64 < n && is_in(j + 64))).take(6) {
            body.push(Stmt::Row((0..n).map(|j| if j == x { Entry::X } else { Entry::Lit(j as i64, Radix::Dec) }).collect()));
        }
        let prog = Program { header, body };
        let text = text(&prog);
        let script = vec![Step::Ans(sigs.iter().filter(|s| s.is_out()).map(|s| (s.name.clone(), V::Num(1))).collect())];
        let r = ref_run_fuel(&prog, &sigs, &script, 100_000, 40);
        assert!(r.end == RefEnd::Done, "C07 wide header case does not finish in the reference: {:?}", r.end);
        st.evals += 1;
        st.nontrivial += 1;
        st.witness("header_wider_than_64_columns");
        let mut opts = RunOpts::new(r.items.len() + 1);
        opts.repeat_last = true;
        let obs = run_dynamic(&text, &sigs, true, &script, &opts);
        let proj = Proj { input_values: true, expected: true, output: false, checked_kind: true, lines: false, vars: false, verdicts: false };
        if let Some((k, m)) = run_mismatch(&r, &obs, proj, None) {
            st.violation(&format!("wide header: {}", classify(&m)), (13 << 40) + idx, format!("{n} columns, arrangement {arrangement}\nfirst difference at {m} (item {k})"), || dyn_replay(&text, &sigs, true, &script, &opts, ref_items_brief(&r).into_iter().take(k + 2).collect(), &obs, &m));
        }
    })
}

pub fn run(tier: Tier, seed: u64) -> i32 {
    let started = Instant::now();
    let deadline = Deadline::new(tier.wall_cap());
    let all_values = pattern_values(tier);
    // one program holds at most 400 values (the reference's budget is 1000 rows, every literal row stands twice)
    let chunks: Vec<Vec<i64>> = all_values.chunks(400).map(|c| c.to_vec()).collect();
    let cases = cases();
    let mut st = par_range(&format!("cases (widths 1..=64 x 2 signal orders, 16 double-bound column cases, 5 cases behind a bits(4,..) entry, 720 mixed-width cases) x 2 value paths x {} blocks of at most 400 of the {} values", chunks.len(), all_values.len()), cases.len() as u64 * 2 * chunks.len() as u64, &deadline, |idx0, st| {
        let values = &chunks[(idx0 / (cases.len() as u64 * 2)) as usize];
        let idx = idx0 % (cases.len() as u64 * 2);
        let case = &cases[(idx / 2) as usize];
        let via_device = idx % 2 == 0;
        let header: Vec<String> = case.header.iter().map(|s| s.to_string()).collect();
        let ncol = header.len() - case.bits_prefix;
        let prefix: Vec<Entry> = if case.bits_prefix > 0 { vec![Entry::Bits(case.bits_prefix as u8, lit(5))] } else { vec![] };
        let with_prefix = |mut es: Vec<Entry>| -> Vec<Entry> {
            let mut v = prefix.clone();
            v.append(&mut es);
            v
        };
        let mut body = vec![];
        if case.declare_v {
            // a virtual signal is 64 bits wide also when it merely renames a narrow output
            let bits = case.sigs.iter().find(|s| s.name == "Q").map(|s| s.bits).unwrap_or(0);
            body.push(Stmt::Declare("V".into(), match bits % 3 { 0 => lit(0), 1 => name("Q"), _ => group(name("Q")) }));
            if bits % 3 != 0 {
                st.witness("virtual_signal_that_renames_a_narrow_output");
            }
        }
        // values for this path: via a 64-bit device output read back by the row, or as hex literals
        let vals: Vec<i64> = if via_device { values.clone() } else { values.iter().copied().filter(|v| *v >= 0).collect() };
        let mut script: Vec<Step> = vec![];
        // the device answers 1 and -1 in turn for the outputs under test (a sign-extended reading does not
        // change what the program expects); every third case the driver leaves one of them out of its
        // answers altogether (an output it does not report still has its expected value reduced)
        let reads_q = case.declare_v && case.sigs.iter().find(|s| s.name == "Q").map(|s| s.bits % 3 != 0).unwrap_or(false);
        let omitted: Option<&str> = if (idx / 2) % 3 == 2 { Some(if reads_q { "D" } else { "Q" }) } else { None };
        if omitted.is_some() {
            st.witness("driver_that_does_not_report_an_output");
        }
        let call_no = std::cell::Cell::new(0i64);
        let ans = |r: i64| -> Answer {
            let c = call_no.get();
            call_no.set(c + 1);
            case.sigs.iter().filter(|s| s.is_out() && Some(s.name.as_str()) != omitted).map(|s| (s.name.clone(), V::Num(if s.name == "R" { r } else if c % 2 == 1 { -1 } else { 1 }))).collect()
        };
        if via_device {
            body.push(Stmt::Repeat(lit(vals.len() as i64), with_prefix((0..ncol).map(|j| if case.mixed && j % 2 == 1 { Entry::Paren(un(UnOp::Inv, name("R"))) } else { Entry::Paren(name("R")) }).collect())));
            for v in &vals {
                script.push(Step::Ans(ans(*v)));
            }
            script.push(Step::Ans(ans(0)));
        } else {
            // every row twice; the driver fails at every seventh call and the caller carries on: a
            // row that repeats the values of a row whose call failed is still sent in full
            for (i, v) in vals.iter().enumerate() {
                for _ in 0..2 {
                    body.push(Stmt::Row(with_prefix((0..ncol).map(|j| Entry::Lit(if case.mixed { vals[(i + 37 * j) % vals.len()] } else { *v }, Radix::Hex)).collect())));
                }
            }
            for c in 0..=2 * vals.len() {
                script.push(if c % 7 == 3 { Step::Fault(70) } else { Step::Ans(ans(0)) });
            }
        }
        // a row that cannot be evaluated (error item without a call) between value rows: the rows
        // after it are still reduced column by column
        let failing_at = body.len();
        if !via_device && ncol >= 2 {
            let mut es: Vec<Entry> = (0..ncol).map(|_| Entry::Lit(0x1ff, Radix::Hex)).collect();
            es[ncol - 1] = Entry::Paren(bin(BinOp::Div, lit(1), lit(0)));
            body.insert(body.len() / 2, Stmt::Row(with_prefix(es)));
        }
        let _ = failing_at;
        // Z and X pass through unchanged
        let bound = bind(&header, &case.sigs, &if case.declare_v { vec![("V".to_string(), lit(0))] } else { vec![] });
        // (variables that happen to be called like the letters do not change what the letters mean)
        for (n, v) in [("X", 300), ("Z", 7), ("x", 2), ("z", 1)] {
            body.push(Stmt::Let(n.into(), lit(v)));
        }
        body.push(Stmt::Row(with_prefix((0..ncol).map(|_| Entry::Z).collect())));
        body.push(Stmt::Row(with_prefix((0..ncol).map(|j| if bound.input_col[j + case.bits_prefix] { Entry::Z } else { Entry::X }).collect())));
        script.push(Step::Ans(ans(0)));
        script.push(Step::Ans(ans(0)));
        let prog = Program { header: header.clone(), body };
        let text = text(&prog);
        let mut env = ScriptEnv::new(&script);
        let r = crate::refsem::run_opts2(&prog, &case.sigs, &mut env, Fuel { steps: 5000, rows: 1000 }, true, true);
        if r.items.iter().any(|i| matches!(i, RefItem::DriverErr(_))) {
            st.witness("row_repeated_after_a_failed_call");
        }
        assert!(r.end == RefEnd::Done, "C07 harness: reference did not finish: {:?}", r.end);
        let mut opts = RunOpts::new(r.items.len() + 1);
        opts.after_end = 0;
        opts.continue_after_error = true;
        if r.items.iter().any(|i| matches!(i, RefItem::ExprErr(_))) {
            st.witness("rows_after_a_row_that_could_not_be_evaluated");
        }
        let obs = run_dynamic(&text, &case.sigs, true, &script, &opts);
        st.evals += vals.len() as u64 * ncol as u64;
        st.steps += obs.items.len() as u64;
        st.outcome(&obs.items);
        let bits_max = case.sigs.iter().filter(|s| s.name != "R").map(|s| s.bits).max().unwrap();
        let bits_min = case.sigs.iter().filter(|s| s.name != "R").map(|s| s.bits).min().unwrap();
        st.nontrivial += vals.iter().filter(|v| **v < 0 || (bits_min < 64 && (**v as u64) >> bits_min != 0)).count() as u64 * ncol as u64;
        st.witness(if via_device { "value_read_back_from_64_bit_device_output" } else { "value_as_hex_literal" });
        match bits_max {
            64 => st.witness("width_64"),
            63 => st.witness("width_63"),
            1 => st.witness("width_1"),
            _ => {}
        }
        if case.mixed {
            st.witness("signals_of_different_widths_side_by_side");
        } else if !case.declare_v {
            st.witness("column_bound_to_two_signals_of_different_width");
        }
        if idx == 14 || idx == 127 {
            st.sample(|| json!({"case": case.name, "via_device": via_device, "values": vals.len(), "first_rows": ref_items_brief(&r).into_iter().skip(100).take(3).collect::<Vec<_>>()}));
        }
        let proj = Proj { input_values: true, expected: true, output: false, checked_kind: true, lines: false, vars: false, verdicts: false };
        let mut mism = run_mismatch(&r, &obs, proj, None).map(|x| x.1);
        // what follows an expression error is only compared if rows are yielded at all
        if let Some(epos) = r.items.iter().position(|i| matches!(i, RefItem::ExprErr(_))) {
            if obs.items.get(epos + 1).map(|i| !i.is_row()).unwrap_or(true) {
                if let Some(m) = &mism {
                    let idx: usize = m.split(':').next().and_then(|s| s.trim_start_matches("item ").parse().ok()).unwrap_or(0);
                    if idx > epos {
                        mism = None;
                    }
                }
            }
        }
        if mism.is_none() {
            // the vector the driver received carries the same reduced values
            for (k, it) in r.items.iter().enumerate() {
                let call = match (obs.calls_after.get(k), obs.calls_after.get(k + 1)) {
                    (Some(a), Some(b)) if b > a => obs.log.get(b - 1),
                    _ => None,
                };
                if let (RefItem::Row(rr), Some(c)) = (it, call) {
                    let got: Vec<(String, V)> = c.inputs.iter().map(|(n, v, _)| (n.clone(), *v)).collect();
                    if got != rr.inputs {
                        mism = Some(format!("item {k}: inputs value: the driver was handed {:?}, expected {:?}", got, rr.inputs));
                        break;
                    }
                }
            }
        }
        if mism.is_none() && !via_device && !reads_q {
            // the static iteration hands out the same reduced values
            if let Ok(tc) = load(&text, &case.sigs, DEFAULT_BUDGET) {
                if let StaticObs::Rows(rows, _) = run_static_opt(&tc, r.items.len() + 1, 1, 2_000_000, true) {
                    st.witness("static_iteration_compared");
                    for (k, (ri, so)) in r.items.iter().zip(rows.iter()).enumerate() {
                        if let (RefItem::Row(rr), Ok(sr)) = (ri, so) {
                            let want_in: Vec<(String, V)> = rr.inputs.clone();
                            let got_in: Vec<(String, V)> = sr.inputs.iter().map(|(n, v, _)| (n.clone(), *v)).collect();
                            let want_ex: Vec<(String, V)> = rr.outputs.iter().map(|o| (o.name.clone(), o.expected)).collect();
                            if want_in != got_in || (rr.checked && want_ex != sr.expected) {
                                mism = Some(format!("item {k}: outputs expected value / inputs value: the static iteration yields inputs {got_in:?} expected {:?}; prescribed: inputs {want_in:?} expected {want_ex:?}", sr.expected));
                                break;
                            }
                        }
                    }
                }
            }
        }
        if mism.is_none() && case.mixed && !via_device {
            // `TestCase::signals` is a public field: the widths in force are those the test case
            // holds when it is run, also if they were edited after loading
            let mut sigs2 = case.sigs.clone();
            let widths: Vec<usize> = sigs2.iter().map(|s| s.bits).collect();
            for (i, s) in sigs2.iter_mut().enumerate() {
                if s.name != "R" {
                    s.bits = 65 - widths[i];
                }
            }
            if let Ok(mut tc) = load(&text, &case.sigs, DEFAULT_BUDGET) {
                for s in tc.signals.iter_mut() {
                    if let Some(n) = sigs2.iter().find(|x| x.name == s.name) {
                        s.bits = n.bits;
                    }
                }
                let mut env = ScriptEnv::new(&script);
                let r2 = crate::refsem::run_opts2(&prog, &sigs2, &mut env, Fuel { steps: 5000, rows: 1000 }, true, true);
                let obs2 = run_loaded(&tc, &sigs2, true, &script, &opts);
                st.witness("width_edited_after_loading");
                if let Some((_, m)) = run_mismatch(&r2, &obs2, proj, None) {
                    mism = Some(format!("{m} [after the widths of the loaded test's signals were edited to {}]", sigs2.iter().map(|s| s.show()).collect::<Vec<_>>().join(", ")));
                }
            }
        }
        if let Some(m) = mism {
            let class = classify(&m);
            let summary = format!("case: {}\nvalues {}\nsignals: {}\nfirst difference at {m}", case.name, if via_device { "read back from device output R" } else { "as hex literals" }, case.sigs.iter().map(|s| s.show()).collect::<Vec<_>>().join(", "));
            st.violation(&class, idx0, summary, || dyn_replay(&text, &case.sigs, true, &script, &opts, ref_items_brief(&r), &obs, &m));
        }
    });
    let meta = CheckMeta {
        id: "C07",
        tier,
        seed,
        rule: "every width 1..=64 x {0,1,2^k,2^k-1,-2^k,-2^k-1 (k=0..63),MAX,MIN,0x55..,0xAA.., runs of ones of every length at every position and their complements, 64 (thorough: 8192) fixed mixed constants} on the input path, expected path, bidirectional signal (both paths) and virtual signal, each value reaching the program both as a hex literal (non-negative) and read back from a 64-bit device output; plus every triple of different widths from {1,2,4,8,31,32,33,63,64} side by side with different values per column; evaluations counts (value, column) pairs; non-trivial = the value does not fit the narrowest width of the case (reduction is not the identity)".into(),
        assumptions: vec![
            "oracle: v mod 2^bits as unsigned bit pattern (refsem::mask); a reduction of the form v & M is pinned exactly by the single-bit values, the others guard against non-mask implementations".into(),
            "values outside the boundary set are not enumerated (2^64 domain, see DESIGN section 10)".into(),
        ],
        required_witnesses: vec!["width_64", "width_63", "width_1", "value_read_back_from_64_bit_device_output", "value_as_hex_literal", "column_bound_to_two_signals_of_different_width", "signals_of_different_widths_side_by_side", "virtual_signal_that_renames_a_narrow_output", "row_repeated_after_a_failed_call", "width_edited_after_loading", "driver_that_does_not_report_an_output", "static_iteration_compared", "rows_after_a_row_that_could_not_be_evaluated"],
        exhaustive_note: "all widths x all boundary values x all listed paths; quick = thorough".into(),
        e1: false,
    };
    st.merge(crate::props::c13::api_use_part(&deadline));
    st.merge(wide_header_cases(&deadline));
    finish(meta, st, started)
}
