//! C06 — values are bound to signals by header name; every row is a complete vector;
//! the one-directional `changed` rule (DESIGN §6/C06).

use crate::compare::*;
use crate::driver::*;
use crate::engine::*;
use crate::model::*;
use crate::props::util::*;
use crate::refsem::*;
use crate::subject::*;
use serde_json::json;
use std::time::Instant;

fn menu() -> Vec<Sig> {
    vec![
        // defaults that do not fit the width: an omitted input is at its default, as given
        Sig::inp("A", 4, 25),
        // inputs of different widths: a value is reduced by the width of the signal its column is bound to
        Sig::inp_z("B", 2),
        Sig::bidir("D", 4, V::Num(6)),
        Sig::out("Q", 1),
        // an output whose name is the expected column of D with the suffix once more
        Sig::out("D_out_out", 2),
        Sig::out("A_out", 4),
        // a one-bit input whose name differs from the bidirectional D only in case
        Sig::inp("d", 1, 1),
        Sig::bidir("A", 8, V::Num(2)),
        // a name that has another bidirectional name as a prefix
        Sig::bidir("DQ", 4, V::Num(-3)),
    ]
}

/// `changed == false` implies the value equals the one in the previous vector handed to the
/// driver; inputs the header omits are never flagged. Checked against the driver's own log.
pub fn changed_rule(obs: &Obs, header: &[String]) -> Option<String> {
    // the log has one entry per call: [0] constructor, then one per item that made a call
    let mut call = 1;
    for (k, it) in obs.items.iter().enumerate() {
        let made_call = obs.calls_after.get(k + 1).zip(obs.calls_after.get(k)).map(|(a, b)| a > b).unwrap_or(false);
        if let ObsItem::Row(r) = it {
            let Some(prev) = obs.log.get(call - 1) else { return Some(format!("item {k}: no previous call in the driver log")) };
            for (j, (n, v, ch)) in r.inputs.iter().enumerate() {
                let pv = prev.inputs.iter().find(|(pn, _, _)| pn == n).map(|x| x.1);
                if !*ch && pv != Some(*v) {
                    return Some(format!(
                        "item {k}: changed: inputs[{j}] ({n}) is flagged unchanged with value {} but the previous vector handed to the driver had {}",
                        v.show(),
                        pv.map(|p| p.show()).unwrap_or("nothing".into())
                    ));
                }
                if *ch && !header.contains(n) {
                    return Some(format!("item {k}: changed: inputs[{j}] ({n}) is not in the header (always at its default) but is flagged changed"));
                }
            }
            // the vector the driver received is the row's vector, flags included
            if let Some(c) = obs.log.get(call) {
                let flags = |v: &Vec<(String, V, bool)>| v.iter().map(|x| x.2).collect::<Vec<bool>>();
                if made_call && flags(&c.inputs) != flags(&r.inputs) {
                    return Some(format!("item {k}: changed: the driver was handed flags {:?} but the row reports {:?}", flags(&c.inputs), flags(&r.inputs)));
                }
            }
        }
        if made_call {
            call += 1;
        }
    }
    None
}

pub fn run(tier: Tier, seed: u64) -> i32 {
    let started = Instant::now();
    let deadline = Deadline::new(tier.wall_cap());
    let menu = menu();
    let max_sigs = tier.pick(4, 5);
    let max_cols = 4;
    let lists: Vec<Vec<usize>> = ordered_selections(menu.len(), max_sigs)
        .into_iter()
        .filter(|l| {
            // lists with a duplicated name are rejected at binding (C11); not this check's subject
            !(l.contains(&0) && l.contains(&7))
        })
        .collect();
    // the small shared parts first: the enumeration below may use up the wall cap on a loaded machine
    let mut shared = crate::props::c13::api_use_part(&deadline);
    shared.merge(crate::props::c14::cloned_signal_list_part(&deadline));
    let st = par_range(&format!("signal lists (ordered selections of <= {max_sigs} of {} menu signals) x all headers of <= {max_cols} columns x 9 fault plans", menu.len()), lists.len() as u64, &deadline, |li, st| {
        let sigs: Vec<Sig> = lists[li as usize].iter().map(|&i| menu[i].clone()).collect();
        // column names valid for this list
        let mut names: Vec<String> = vec![];
        for s in &sigs {
            if !names.contains(&s.name) {
                names.push(s.name.clone());
            }
            if matches!(s.kind, Kind::Bidir(_)) {
                let o = format!("{}_out", s.name);
                if !names.contains(&o) {
                    names.push(o);
                }
            }
        }
        // every other signal list comes with a declared virtual signal (with or without a column)
        let declared = li % 2 == 1;
        if declared {
            names.push("VV".into());
        }
        let answer: Answer = sigs.iter().filter(|s| s.is_out()).map(|s| (s.name.clone(), V::Num(1))).collect();
        for hsel in ordered_selections(names.len(), max_cols) {
            if hsel.is_empty() {
                continue;
            }
            let header: Vec<String> = hsel.iter().map(|&i| names[i].clone()).collect();
            let decls: Vec<(String, Expr)> = if declared { vec![("VV".to_string(), lit(3))] } else { vec![] };
            let bound = bind(&header, &sigs, &decls);
            let ncol = header.len();
            let lit_row = |f: &dyn Fn(usize) -> i64| Stmt::Row((0..ncol).map(|j| Entry::Lit(f(j), Radix::Dec)).collect());
            let zx_row = Stmt::Row((0..ncol).map(|j| if bound.input_col[j] { Entry::Z } else { Entry::X }).collect());
            // consecutive rows differ in one column only, then in exactly one bit (3,2,1,0) of
            // every column, then in every column
            let body = vec![
                lit_row(&|j| j as i64 + 1),
                lit_row(&|j| if j == 0 { 9 } else { j as i64 + 1 }),
                lit_row(&|j| j as i64 + 1),
                lit_row(&|j| (j as i64 + 1) ^ 8),
                lit_row(&|j| (j as i64 + 1) ^ 12),
                lit_row(&|j| (j as i64 + 1) ^ 14),
                lit_row(&|j| (j as i64 + 1) ^ 15),
                zx_row.clone(),
                lit_row(&|j| j as i64 + 5),
                // Z next to the number -1 (all ones on every width), in both directions
                zx_row.clone(),
                Stmt::Row((0..ncol).map(|_| Entry::Paren(bin(BinOp::Sub, lit(0), lit(1)))).collect()),
                zx_row,
            ];
            let mut body = body;
            if declared {
                body.insert(1, Stmt::Declare("VV".into(), lit(3)));
                st.witness(if header.iter().any(|h| h == "VV") { "virtual_signal_with_a_header_column" } else { "virtual_signal_without_a_header_column" });
            }
            let prog = Program { header: header.clone(), body };
            let text = text(&prog);
            let tc = load(&text, &sigs, DEFAULT_BUDGET);
            // plan 0: fault-free; plans 1..=5: the call of row p-1 fails and the caller carries on
            // the defaults in force are those the test holds when it is run: `TestCase::signals` is a public
            // field, here every input-capable signal's default is edited after loading (every fifth list)
            if li % 5 == 0 {
                if let Ok(tc0) = &tc {
                    let mut tc2 = tc0.clone();
                    let mut sigs2 = sigs.clone();
                    for (k, (s2, real)) in sigs2.iter_mut().zip(tc2.signals.iter_mut()).enumerate() {
                        let nv = if k % 2 == 0 { V::Num(3 + k as i64) } else { V::Z };
                        match &mut real.typ {
                            digital_test_runner::SignalType::Input { default } => {
                                *default = match nv { V::Num(n) => digital_test_runner::InputValue::Value(n), _ => digital_test_runner::InputValue::Z };
                                s2.kind = Kind::In(nv);
                            }
                            digital_test_runner::SignalType::Bidirectional { default } => {
                                *default = match nv { V::Num(n) => digital_test_runner::InputValue::Value(n), _ => digital_test_runner::InputValue::Z };
                                s2.kind = Kind::Bidir(nv);
                            }
                            _ => {}
                        }
                    }
                    let script: Vec<Step> = vec![Step::Ans(answer.clone()); 14];
                    let mut opts = RunOpts::new(14);
                    opts.continue_after_error = true;
                    let obs2 = run_loaded(&tc2, &sigs2, true, &script, &opts);
                    let r2 = ref_run(&prog, &sigs2, &script);
                    st.witness("defaults_edited_after_loading");
                    let proj = Proj { input_values: true, expected: true, output: false, checked_kind: true, lines: false, vars: false, verdicts: false };
                    if let Some((_, m)) = run_mismatch(&r2, &obs2, proj, None) {
                        let summary = format!("signals: {}\nthe defaults of the loaded test's signals are edited to: {}\nprogram:\n{text}first difference at {m}", sigs.iter().map(|s| s.show()).collect::<Vec<_>>().join(", "), sigs2.iter().map(|s| s.show()).collect::<Vec<_>>().join(", "));
                        st.violation(&format!("{} (defaults edited after loading)", classify(&m)), li, summary, || dyn_replay(&text, &sigs2, true, &script, &opts, ref_items_brief(&r2), &obs2, &m));
                    }
                }
            }
            // plan 9: no fault, but the driver reports only the outputs that have a column in the header
            // (an output it leaves out and the header omits is still an entry of every checked row: X ~ X)
            let reported: Answer = answer.iter().filter(|(n, _)| header.contains(n) || header.contains(&format!("{n}_out"))).cloned().collect();
            for plan in 0..10usize {
                if plan == 9 && reported.len() == answer.len() {
                    continue;
                }
                let script: Vec<Step> = (0..14).map(|c| if plan == 9 { Step::Ans(reported.clone()) } else if plan > 0 && c == plan { Step::Fault(7) } else { Step::Ans(answer.clone()) }).collect();
                st.evals += 1;
                let mut opts = RunOpts::new(14);
                opts.after_end = 0;
                opts.continue_after_error = true;
                let obs = match &tc {
                    Ok(tc) => run_loaded(tc, &sigs, true, &script, &opts),
                    Err(i) => not_loaded(i),
                };
                st.steps += obs.items.len() as u64;
                let omitted_in = bound.ins.iter().any(|(_, c)| c.is_none());
                let omitted_out = bound.outs.iter().any(|(_, c)| c.is_none());
                let split = header.iter().any(|h| h.ends_with("_out")) as usize + sigs.iter().any(|s| matches!(s.kind, Kind::Bidir(_)) && header.contains(&s.name)) as usize;
                if plan == 0 {
                    if omitted_in {
                        st.witness("input_omitted_from_header");
                    }
                    if omitted_out {
                        st.witness("output_omitted_from_header");
                    }
                    if split == 2 {
                        st.witness("bidirectional_pair_both_columns");
                    }
                    if split == 1 {
                        st.witness("bidirectional_pair_partial");
                    }
                    let order_differs = {
                        let pos: Vec<usize> = bound.ins.iter().filter_map(|(_, c)| *c).collect();
                        pos.windows(2).any(|w| w[0] > w[1])
                    };
                    if order_differs {
                        st.witness("header_order_differs_from_signal_list_order");
                    }
                    if sigs.len() > 1 && (omitted_in || omitted_out || order_differs || split > 0) {
                        st.nontrivial += 1;
                    }
                    st.outcome(&obs.items);
                    if order_differs && split == 2 && li % 50 == 3 {
                        st.sample(|| json!({"signals": sigs_json(&sigs), "header": header, "observed": obs_items_brief(&obs)}));
                    }
                } else {
                    st.witness("driver_fault_then_continue");
                }
                let mut mism: Option<String> = None;
                if plan == 9 {
                    st.witness("driver_reports_only_the_outputs_of_the_header");
                }
                if plan == 0 || plan == 9 {
                    let r = ref_run(&prog, &sigs, &script);
                    let proj = Proj { input_values: true, expected: true, output: false, checked_kind: true, lines: false, vars: false, verdicts: false };
                    mism = run_mismatch(&r, &obs, proj, None).map(|x| x.1);
                }
                if mism.is_none() && obs.init == ObsInit::Ok {
                    mism = changed_rule(&obs, &header);
                }
                if let Some(m) = mism {
                    let class = if m.contains("changed:") { "changed flag".to_string() } else { classify(&m) };
                    let summary = format!("signals: {}\nprogram:\n{text}fault plan {plan}\nfirst difference at {m}", sigs.iter().map(|s| s.show()).collect::<Vec<_>>().join(", "));
                    let r = ref_run(&prog, &sigs, &script);
                    st.violation(&class, li, summary, || dyn_replay(&text, &sigs, true, &script, &opts, ref_items_brief(&r), &obs, &m));
                }
            }
        }
    });
    // far beyond the enumerated scope: 300 signals, header in reverse order, every third omitted
    let mut st = st;
    {
        let n = 300;
        let sigs: Vec<Sig> = (0..n).map(|i| if i % 3 == 2 { Sig::out(&format!("S{i}"), 12) } else if i % 7 == 0 { Sig::bidir(&format!("S{i}"), 12, V::Num(i as i64)) } else { Sig::inp(&format!("S{i}"), 12, (i * 3) as i64) }).collect();
        let mut header: Vec<String> = vec![];
        for i in (0..n).rev() {
            if i % 5 != 1 {
                header.push(format!("S{i}"));
            }
            if i % 7 == 0 && i % 3 != 2 && i % 2 == 0 {
                header.push(format!("S{i}_out"));
            }
        }
        let ncol = header.len();
        let rows: Vec<Stmt> = (0..4).map(|r| Stmt::Row((0..ncol).map(|j| Entry::Lit(((j * 5 + r * 1000 * (j % 2)) % 4000) as i64, Radix::Dec)).collect())).collect();
        let prog = Program { header: header.clone(), body: rows };
        let text = text(&prog);
        let answer: Answer = sigs.iter().filter(|s| s.is_out()).map(|s| (s.name.clone(), V::Num(1))).collect();
        let script = vec![Step::Ans(answer)];
        let r = ref_run_fuel(&prog, &sigs, &script, 10_000, 100);
        let mut opts = RunOpts::new(6);
        opts.repeat_last = true;
        let obs = run_dynamic(&text, &sigs, true, &script, &opts);
        st.evals += 1;
        st.nontrivial += 1;
        st.witness("three_hundred_signals");
        let proj = Proj { input_values: true, expected: true, output: false, checked_kind: true, lines: false, vars: false, verdicts: false };
        let m = run_mismatch(&r, &obs, proj, None).map(|x| x.1).or_else(|| changed_rule(&obs, &header));
        if let Some(m) = m {
            st.violation(&format!("large scale: {}", classify(&m)), 1 << 60, format!("300 signals, header of {ncol} columns in reverse order\nfirst difference at {m}"), || dyn_replay(&text, &sigs, true, &script, &opts, ref_items_brief(&r), &obs, &m));
        }
    }
    let meta = CheckMeta {
        id: "C06",
        tier,
        seed,
        rule: "every ordered selection of signals from the menu x every ordered selection of header columns valid for it; each generated exactly once by nested enumeration; nine-row program; one fault-free run compared with the reference binder plus eight runs with a driver fault at one row after which the caller carries on (changed rule against the driver's log). A configuration is non-trivial if an input or output is omitted, the orders differ or a bidirectional pair is involved".into(),
        assumptions: vec![
            "reference binder refsem.rs::bind is the oracle for names/values; the changed rule is checked one-directionally as the property states, against the driver's own record of what it was handed".into(),
            "values are < 16 so width masking (C07) is the identity".into(),
        ],
        required_witnesses: vec![
            "input_omitted_from_header",
            "output_omitted_from_header",
            "bidirectional_pair_both_columns",
            "bidirectional_pair_partial",
            "header_order_differs_from_signal_list_order",
            "driver_fault_then_continue",
            "three_hundred_signals",
            "virtual_signal_with_a_header_column",
            "virtual_signal_without_a_header_column",
            "driver_reports_only_the_outputs_of_the_header",
            "defaults_edited_after_loading",
        ],
        exhaustive_note: "all signal lists and headers within the stated bounds".into(),
        e1: false,
    };
    st.merge(shared);
    finish(meta, st, started)
}
