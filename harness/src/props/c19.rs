//! C19 — each row reports the source line it came from (DESIGN §6/C19).

use crate::compare::*;
use crate::digxml;
use crate::driver::*;
use crate::engine::*;
use crate::layout::*;
use crate::model::*;
use crate::props::util::*;
use crate::refsem::*;
use crate::space::*;
use crate::subject::*;
use digital_test_runner as dtr;
use serde_json::json;
use std::time::Instant;

/// two configurations: ASCII names, and names with multi-byte characters
fn sigs(cfg: usize) -> Vec<Sig> {
    let (a, q) = names(cfg);
    vec![Sig::inp(a, 8, 0), Sig::out(q, 8), Sig::out("i", 8)]
}

fn names(cfg: usize) -> (&'static str, &'static str) {
    if cfg == 0 {
        ("A", "Q")
    } else {
        ("Zähler", "Ü€")
    }
}

fn space(k: usize) -> ForestSpace {
    let l = |n: i64| Entry::Lit(n, Radix::Dec);
    let atoms = vec![
        Stmt::Row(vec![l(1), l(2)]),
        Stmt::Row(vec![Entry::Paren(name("i")), Entry::X]),
        Stmt::Row(vec![Entry::X, l(1)]),
        Stmt::Row(vec![Entry::C, l(0)]),
        Stmt::Let("i".into(), lit(1)),
        Stmt::Declare("v".into(), name("Q")),
        Stmt::Repeat(lit(2), vec![l(0), l(1)]),
        Stmt::ResetRandom,
    ];
    // while(i < 1): the device shows i = 0, so the body runs until a `let i = 1;` in it has been executed
    let blocks = vec![Block::Loop("i".into(), lit(2)), Block::Loop("j".into(), lit(1)), Block::While(lit(0)), Block::While(bin(BinOp::Lt, name("i"), lit(1)))];
    ForestSpace::new(atoms, blocks, 3, k)
}

/// the declaration reads the output; a name with non-ASCII characters cannot be written in an
/// expression, there the declaration is a constant
fn rename(body: &[Stmt], q: &str) -> Vec<Stmt> {
    body.iter()
        .map(|s| match s {
            Stmt::Declare(n, _) => Stmt::Declare(n.clone(), if q.is_ascii() { name(q) } else { lit(1) }),
            Stmt::Loop(v, e, b) => Stmt::Loop(v.clone(), e.clone(), rename(b, q)),
            Stmt::While(e, b) => Stmt::While(e.clone(), rename(b, q)),
            other => other.clone(),
        })
        .collect()
}

pub fn singles(nlines: usize) -> Vec<Dev> {
    let mut d = vec![Dev::BlankBefore(""), Dev::BlankBefore(" \t"), Dev::BlankBefore("\r")];
    for p in 0..nlines {
        for c in ["", "  \t", "# c", "#end loop", "\r", "# C:\\dir\\", "# off:\r1 1 1"] {
            d.push(Dev::Insert(p, c));
        }
    }
    d.push(Dev::CrlfAll);
    for p in 0..nlines {
        d.push(Dev::CrlfLine(p));
    }
    for p in 1..nlines {
        d.push(Dev::TrailingComment(p, " # c"));
        d.push(Dev::TrailingComment(p, " # \\"));
        d.push(Dev::TrailingComment(p, " # was:\r1"));
    }
    // indentation, of the header line too
    for p in 0..nlines {
        d.push(Dev::Indent(p, " \t"));
    }
    d.push(Dev::NoFinalNewline);
    d
}

pub fn run(tier: Tier, seed: u64) -> i32 {
    let started = Instant::now();
    let deadline = Deadline::new(tier.wall_cap());
    let maxk = tier.pick(3, 4);
    let maxdev = 2;
    let mut total = Stats::default();
    for cfg in 0..2 {
    let sigs = sigs(cfg);
    let (na, nq) = names(cfg);
    let answer: Answer = vec![(nq.into(), V::Num(3)), ("i".into(), V::Num(0))];
    let script = vec![Step::Ans(answer)];
    // the companion test: rows with X and C expansions on lines 11.. of another text
    let companion = load(&format!("{na} {nq}\n\n\n\n\n\n\n\n\n\nX 1\nC X\n1 1\nX X\n"), &sigs, DEFAULT_BUDGET).ok();
    for k in 1..=maxk {
        if cfg == 1 && k == 4 {
            continue;
        }
        let sp = space(k);
        let n = sp.count(k);
        let label = format!("programs with {k} statements (8 atomic statements, 4 block headers incl. a while that runs, nesting <= 3) x all layouts with <= {} deviations (blank/whitespace/comment lines anywhere, blank lines before the header, CRLF on one line or all, trailing comment, indentation of any line incl. the header, no final newline)", if tier == Tier::Thorough && k <= 3 && cfg == 0 { 3 } else if k <= 3 { maxdev } else { 1 });
        let st = par_range(&label, n, &deadline, |idx, st| {
            let body = sp.unrank(k, idx);
            let body = rename(&body, nq);
            let prog = Program { header: vec![na.into(), nq.into()], body };
            if prog.declares().len() > 1 {
                return; // the same name declared twice is not a valid program
            }
            let ls = lines(&prog);
            if !ls.iter().any(|l| l.row.is_some()) {
                return;
            }
            let r = ref_run_fuel(&prog, &sigs, &script, 600, 60);
            if r.events.contains("while_ran_1") || r.events.contains("while_ran_2plus") {
                st.witness("while_ran_1");
            }
            if r.end != RefEnd::Done {
                st.out_of_scope += 1;
                return;
            }
            let nrows = r.items.len();
            let devs = singles(ls.len());
            // thorough: three deviations at once for programs of one or two statements
            let layouts = up_to(&devs, if tier == Tier::Thorough && k <= 3 && cfg == 0 { 3 } else if k <= 3 { maxdev } else { 1 });
            let proj = Proj { input_values: false, expected: false, output: false, checked_kind: false, lines: true, vars: false, verdicts: false };
            let mut opts = RunOpts::new(nrows + 1);
            opts.repeat_last = true;
            for (li, lay) in layouts.iter().enumerate() {
                let laid = apply(&ls, lay);
                st.evals += 1;
                if !lay.is_empty() {
                    st.nontrivial += 1;
                }
                // history of the thread: every other text is parsed right after texts that fail to parse
                // after some valid rows (a row of the wrong width far down, an unsupported statement,
                // a loop that is never closed): nothing of a failed parse may leak into the next one
                if li % 2 == 1 {
                    for poison in ["X Y\n1 1\n\n\n\n\n\n\n1 1 1\n", "X Y\n\n\n1 1\n1 0\nprogram(1)\n", "X Y\n1 1\n# c\nloop(k,2)\n1 1\n"] {
                        let _ = parse(poison, DEFAULT_BUDGET);
                    }
                    st.witness("parsed_after_failed_parses_on_the_same_thread");
                }
                let tc = load(&laid.text, &sigs, DEFAULT_BUDGET);
                let obs = match &tc {
                    Ok(tc) => run_loaded(tc, &sigs, true, &script, &opts),
                    Err(i) => not_loaded(i),
                };
                st.steps += obs.items.len() as u64;
                let mut mism = run_mismatch(&r, &obs, proj, Some(&laid.row_lines)).map(|x| x.1);
                // the static API reports the same lines (this program space reads i: only when static)
                if mism.is_none() {
                    if let Ok(tc) = &tc {
                        if let StaticObs::Rows(rows, _) = run_static(tc, nrows + 1, 1, DEFAULT_BUDGET) {
                            for (kk, (row, ri)) in rows.iter().zip(&r.items).enumerate() {
                                if let (Ok(row), RefItem::Row(rr)) = (row, ri) {
                                    if row.line != laid.row_lines[rr.node] {
                                        mism = Some(format!("item {kk}: line: static iteration reports line {} for the row on line {}", row.line, laid.row_lines[rr.node]));
                                        break;
                                    }
                                }
                            }
                            st.witness("static_api_lines_compared");
                        }
                    }
                }
                // another iterator over another test advanced between all next() calls
                if mism.is_none() && (lay.len() <= 1 || li % 5 == 0) {
                    if let (Ok(tc), Some(other)) = (&tc, companion.as_ref()) {
                        match lines_with_companion(tc, &sigs, &script, other, &sigs, &script, nrows + 1) {
                            Ok(lines) => {
                                st.witness("companion_iterator_advanced_in_between");
                                let want: Vec<usize> = r.items.iter().map(|i| if let RefItem::Row(rr) = i { laid.row_lines[rr.node] } else { 0 }).collect();
                                if lines != want {
                                    mism = Some(format!("line: with another iterator advanced in between, the rows report lines {lines:?}, expected {want:?}"));
                                }
                            }
                            Err(c) => mism = Some(format!("line: interleaved run failed: {c:?}")),
                        }
                    }
                }
                // through a .dig document: lines are relative to the test's own source text
                if mism.is_none() && (lay.len() <= 1 || li % 7 == 0) {
                    let pins = vec![
                        digxml::Pin::new(digxml::PinKind::In, na).bits("8"),
                        digxml::Pin::new(digxml::PinKind::Out, nq).bits("8"),
                        digxml::Pin::new(digxml::PinKind::Out, "i").bits("8"),
                    ];
                    // every other time the file object is first loaded with the canonical layout, then its public
                    // source field is overwritten with this layout and the test loaded again (also from a clone)
                    let edited = li % 2 == 0 && !lay.is_empty();
                    let first_text = if edited { apply(&ls, &[]).text } else { laid.text.clone() };
                    let doc = digxml::render(&pins, &[digxml::TestDesc { label: Some("t".into()), source: first_text, extra: vec![] }]);
                    let new_text = laid.text.clone();
                    let loaded = guard(DEFAULT_BUDGET, || {
                        dtr::dig::File::parse(&doc).map_err(|e| miette_chain(&e)).and_then(|mut f| {
                            if edited {
                                let _ = f.load_test(0);
                                f.test_cases[0].source = new_text;
                                f = f.clone();
                            }
                            f.load_test(0).map_err(|e| miette_chain(&e))
                        })
                    });
                    if edited {
                        st.witness("source_field_of_a_loaded_file_edited_then_loaded_again");
                    }
                    match loaded {
                        Ok(Ok(tc)) => {
                            let o2 = run_loaded(&tc, &sigs, true, &script, &opts);
                            st.witness("loaded_from_dig_document");
                            if let Some((_, m)) = run_mismatch(&r, &o2, proj, Some(&laid.row_lines)) {
                                mism = Some(format!("{m} (test loaded from a .dig document)"));
                            }
                        }
                        other => mism = Some(format!("construction: the .dig document holding this test does not load: {other:?}")),
                    }
                }
                for d in lay {
                    st.witness(match d {
                        Dev::BlankBefore(_) => "blank_line_before_header",
                        Dev::Insert(_, c) if c.starts_with('#') => "comment_line_inserted",
                        Dev::Insert(..) => "blank_line_inserted",
                        Dev::CrlfAll | Dev::CrlfLine(_) => "crlf",
                        Dev::TrailingComment(..) => "trailing_comment",
                        Dev::NoFinalNewline => "no_final_newline",
                        Dev::Indent(..) => "indented_line",
                        _ => "other",
                    });
                }
                if lay.len() == 2 && idx % 50 == 7 && li % 301 == 0 {
                    st.sample(|| json!({"text": laid.text, "expected_row_lines": laid.row_lines, "deviations": format!("{lay:?}")}));
                }
                if let Some(m) = mism {
                    let class = if m.contains("line") { "line".to_string() } else { classify(&m) };
                    let exp: Vec<String> = r.items.iter().map(|i| if let RefItem::Row(rr) = i { format!("row from line {}", laid.row_lines[rr.node]) } else { ref_brief(i) }).collect();
                    st.violation(&class, (k as u64) << 50 | (lay.len() as u64) << 44 | idx << 16 | li as u64 & 0xffff, format!("layout deviations: {lay:?}\ntext:\n{}\nexpected lines: {exp:?}\nfirst difference at {m}", laid.text), || {
                        dyn_replay(&laid.text, &sigs, true, &script, &opts, exp.clone(), &obs, &m)
                    });
                }
            }
        });
        total.merge(st);
    }
    }
    // far beyond the enumerated scope: 70000 blank and comment lines above a row
    {
        let sigs = sigs(0);
        let mut text = String::from("\n\nA Q\n");
        for j in 0..70_000 {
            text.push_str(if j % 3 == 0 { "# c\n" } else if j % 3 == 1 { "\r\n" } else { "\n" });
        }
        text.push_str("X 1\nloop(i,2)\n\nC 1\nend loop");
        let script = vec![Step::Ans(vec![("Q".into(), V::Num(3)), ("i".into(), V::Num(202))])];
        let mut opts = RunOpts::new(20);
        opts.repeat_last = true;
        opts.budget = 10_000_000;
        let obs = run_dynamic(&text, &sigs, true, &script, &opts);
        let lines: Vec<usize> = obs.items.iter().filter_map(|i| if let ObsItem::Row(r) = i { Some(r.line) } else { None }).collect();
        let want: Vec<usize> = vec![70_004, 70_004, 70_007, 70_007, 70_007, 70_007, 70_007, 70_007];
        total.evals += 1;
        total.nontrivial += 1;
        total.witness("row_on_a_line_beyond_65535");
        if lines != want {
            total.violation("line", 1 << 60, format!("a text with 70000 blank/comment lines after the header: rows report lines {lines:?}, expected {want:?}"), || dyn_replay(&text, &sigs, true, &script, &opts, want.iter().map(|l| format!("row from line {l}")).collect(), &obs, "line"));
        }
    }
    // loop bodies longer than the enumerated programs hold: computed rows and plain rows mixed, three
    // iterations, a nested repeat, a while - the same lines in every iteration
    {
        let sigs = sigs(0);
        let cases: Vec<(&str, Vec<usize>)> = vec![
            ("A Q\nloop(i,3)\n(i) X\n1 1\n1 0\n(i+1) X\n0 0\nend loop\n1 1\n", [3usize, 4, 5, 6, 7].iter().cycle().take(15).copied().chain([9]).collect()),
            ("A Q\n1 1\nloop(i,2)\n0 0\n0 1\n\n(i) 1\n1 1\nrepeat(2) 1 0\n(i) X\nend loop\n", [2usize].into_iter().chain([4usize, 5, 7, 8, 9, 9, 10].iter().cycle().take(14).copied()).collect()),
            ("A Q\nlet k = 0;\nwhile(k < 3)\n(k) X\n1 1\n1 1\nlet k = k + 1;\n0 0\nend while\n", [4usize, 5, 6, 8].iter().cycle().take(12).copied().collect()),
            ("A Q\nloop(j,2)\nloop(i,2)\n1 1\n(i) X\n1 1\n1 1\nend loop\n0 0\nend loop\n", [4usize, 5, 6, 7, 4, 5, 6, 7, 9].iter().cycle().take(18).copied().collect()),
        ];
        for (ci, (text, want)) in cases.iter().enumerate() {
            let script = vec![Step::Ans(vec![("Q".into(), V::Num(3)), ("i".into(), V::Num(202))])];
            let mut opts = RunOpts::new(40);
            opts.repeat_last = true;
            let obs = run_dynamic(text, &sigs, true, &script, &opts);
            let lines: Vec<usize> = obs.items.iter().filter_map(|i| if let ObsItem::Row(r) = i { Some(r.line) } else { None }).collect();
            total.evals += 1;
            total.nontrivial += 1;
            total.witness("loop_body_of_five_rows");
            if &lines != want {
                total.violation("line", (1 << 59) + ci as u64, format!("text:\n{text}rows report lines {lines:?}, expected {want:?}"), || dyn_replay(text, &sigs, true, &script, &opts, want.iter().map(|l| format!("row from line {l}")).collect(), &obs, "line"));
            }
        }
    }
    let meta = CheckMeta {
        id: "C19",
        tier,
        seed,
        rule: "every program of the space that yields at least one row x every layout with at most 2 deviations from the canonical one-statement-per-line layout; the expected line of each row is recorded by the generator when it lays the text out; dynamic API, static API (when the program is static) and the same text loaded through a generated .dig document; non-trivial = at least one deviation".into(),
        assumptions: vec!["the generating printer (layout.rs) is the oracle for line numbers; only the line field is compared here".into()],
        required_witnesses: vec!["blank_line_before_header", "comment_line_inserted", "blank_line_inserted", "crlf", "trailing_comment", "no_final_newline", "static_api_lines_compared", "loaded_from_dig_document", "companion_iterator_advanced_in_between", "row_on_a_line_beyond_65535", "indented_line", "while_ran_1", "parsed_after_failed_parses_on_the_same_thread", "source_field_of_a_loaded_file_edited_then_loaded_again"],
        exhaustive_note: "all programs x all layouts within the bounds (K=4 in the thorough tier with single deviations)".into(),
        e1: false,
    };
    total.merge(crate::props::c13::api_use_part(&deadline));
    finish(meta, total, started)
}
