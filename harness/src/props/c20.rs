//! C20 — layout is irrelevant (DESIGN §6/C20). Metamorphic: a program and each of its
//! layout-only rewritings (<= 2 deviations) must get the same verdict and the same rows,
//! `line` shifted by the number of lines inserted above. No reference semantics involved.

use crate::driver::*;
use crate::engine::*;
use crate::layout::*;
use crate::model::*;
use crate::refgrammar;
use crate::refsem::Answer;
use crate::space::*;
use crate::subject::*;
use digital_test_runner as dtr;
use serde_json::json;
use std::time::Instant;

fn sigs() -> Vec<Sig> {
    vec![Sig::inp("A", 8, 0), Sig::inp("B", 8, 1), Sig::out("Q", 8), Sig::out("i", 8)]
}

fn space(k: usize) -> ForestSpace {
    let l = |n: i64| Entry::Lit(n, Radix::Dec);
    let i = || name("i");
    let atoms = vec![
        Stmt::Row(vec![l(10), Entry::Lit(0x1F, Radix::HexUp), l(0)]),
        // a literal directly behind a unary minus (first literal of the row: the malformed variants put 2^63 / 2^64-1 there)
        Stmt::Row(vec![Entry::Paren(un(UnOp::Neg, lit(5))), l(1), Entry::X]),
        // a literal that starts with 0 in front of one that starts with 8 / 9 / a letter-like entry
        Stmt::Row(vec![l(0), l(8), l(9)]),
        Stmt::Row(vec![l(11), Entry::Lit(0xB0, Radix::Hex), Entry::Lit(0xBB, Radix::HexUp)]),
        Stmt::Row(vec![Entry::Paren(bin(BinOp::Shl, i(), Expr::Lit(2, Radix::Bin))), Entry::X, Entry::Lit(8, Radix::Oct)]),
        Stmt::Row(vec![Entry::Bits(2, bin(BinOp::Le, un(UnOp::Inv, un(UnOp::Neg, i())), lit(7))), Entry::Z]),
        Stmt::Row(vec![Entry::C, Entry::Paren(ite(bin(BinOp::Ne, i(), lit(1)), Expr::Lit(255, Radix::Hex), un(UnOp::Not, i()))), l(1)]),
        Stmt::Let("i".into(), bin(BinOp::Sub, bin(BinOp::Add, i(), lit(1)), un(UnOp::Neg, lit(1)))),
        Stmt::Let("looper".into(), bin(BinOp::Ge, i(), Expr::Lit(16, Radix::Hex))),
        Stmt::Declare("end1".into(), bin(BinOp::Shr, name("Q"), lit(1))),
        Stmt::Repeat(Expr::Lit(2, Radix::Oct), vec![Entry::Paren(name("n")), l(0), l(1)]),
        Stmt::ResetRandom,
    ];
    let blocks = vec![Block::Loop("i".into(), Expr::Lit(2, Radix::Hex)), Block::While(bin(BinOp::Lt, i(), lit(0)))];
    ForestSpace::new(atoms, blocks, 2, k)
}

fn is_lit(t: &str) -> bool {
    t.chars().next().map(|c| c.is_ascii_digit()).unwrap_or(false)
}

/// may t1 and t2 be written without blank space between them? Only if the reference lexer
/// reads the concatenation as exactly these two tokens.
fn can_join(t1: &str, t2: &str) -> bool {
    let cat = format!("{t1}{t2}");
    let toks = refgrammar::lex(&cat, 0);
    toks.len() == 3 && toks[0].end == t1.len() && toks[1].end == cat.len()
}

/// Do the two texts have the same token sequence by the reference lexer (line breaks and
/// comments apart; literals compared by value)? Deviations that are layout-only one by one can
/// combine into a different token sequence (`0 8` joined to `08` stays two tokens, but joined
/// after the `0` was respelt `0X0` it is one): such combinations are not rewritings of the layout.
fn same_token_sequence(a: &str, b: &str) -> bool {
    let split = |t: &str| -> (Vec<String>, usize) {
        let end = t.find('\n').unwrap_or(t.len());
        (t[..end].split(|c: char| c == ' ' || c == '\t' || c == '\r').filter(|s| !s.is_empty()).map(|s| s.to_string()).collect(), end)
    };
    let (ha, ea) = split(a);
    let (hb, eb) = split(b);
    if ha != hb {
        return false;
    }
    let ta: Vec<refgrammar::Tok> = refgrammar::lex(a, ea).into_iter().map(|t| t.tok).filter(|t| *t != refgrammar::Tok::Eol).collect();
    let tb: Vec<refgrammar::Tok> = refgrammar::lex(b, eb).into_iter().map(|t| t.tok).filter(|t| *t != refgrammar::Tok::Eol).collect();
    ta.len() == tb.len()
        && ta.iter().zip(tb.iter()).all(|(x, y)| match (x, y) {
            (refgrammar::Tok::Num(p), refgrammar::Tok::Num(q)) => p == q || (refgrammar::lit_value(p).map(|v| v.0) == refgrammar::lit_value(q).map(|v| v.0) && refgrammar::lit_value(p).is_some()) || respellings(p).contains(q),
            _ => x == y,
        })
}

fn respellings(t: &str) -> Vec<String> {
    let Some((v, _)) = refgrammar::lit_value(t) else {
        // a literal that does not fit in 64 bits stays malformed in every radix
        let digits = t.trim_start_matches("0x").trim_start_matches("0X");
        if let Ok(v) = u128::from_str_radix(digits, if t.starts_with("0x") || t.starts_with("0X") { 16 } else { 10 }) {
            let mut out = vec![format!("{v}"), format!("0x{v:x}"), format!("0X{v:X}"), format!("0b{v:b}"), format!("0{v:o}")];
            out.retain(|s| s != t);
            return out;
        }
        return vec![];
    };
    let mut out: Vec<String> = RADIXES.iter().map(|r| lit_text(v, *r)).collect();
    out.push(format!("0x{v:X}"));
    out.push(format!("0X{v:x}"));
    // hexadecimal digits in both letter cases within one literal
    let mixed: String = format!("{v:x}").chars().enumerate().map(|(i, c)| if i % 2 == 0 { c.to_ascii_uppercase() } else { c }).collect();
    out.push(format!("0x{mixed}"));
    let mixed2: String = format!("{v:x}").chars().enumerate().map(|(i, c)| if i % 2 == 1 { c.to_ascii_uppercase() } else { c }).collect();
    out.push(format!("0X{mixed2}"));
    out.push(format!("00{v:o}"));
    // leading zeros do not change a value: more digits than 64 bits' worth
    out.push(format!("0x{v:020x}"));
    out.push(format!("0b{v:070b}"));
    out.push(format!("0{v:030o}"));
    out.sort();
    out.dedup();
    out.retain(|s| s != t);
    out
}

fn singles(ls: &[Line]) -> Vec<Dev> {
    let mut d = vec![];
    for (li, l) in ls.iter().enumerate() {
        for ti in 1..l.toks.len() {
            // the property names spaces, tabs and carriage returns (a form feed is not listed)
            for g in ["  ", "\t", " \r", "\r ", "\t \t"] {
                d.push(Dev::Gap(li, ti, g));
            }
            if li > 0 && can_join(&l.toks[ti - 1], &l.toks[ti]) {
                d.push(Dev::Gap(li, ti, ""));
            }
        }
        d.push(Dev::Indent(li, " \t"));
        d.push(Dev::TrailingSpace(li, " \r"));
        if li > 0 {
            d.push(Dev::TrailingComment(li, " # c"));
            d.push(Dev::TrailingComment(li, "#end loop"));
            d.push(Dev::TrailingComment(li, "# a\\"));
            // a comment runs to the end of the line: a carriage return inside it is part of it
            d.push(Dev::TrailingComment(li, "# was:\r7 7"));
            for (ti, t) in l.toks.iter().enumerate() {
                if is_lit(t) {
                    for r in respellings(t) {
                        d.push(Dev::Respell(li, ti, r));
                    }
                }
            }
        }
        d.push(Dev::CrlfLine(li));
        for c in ["", "# c", " \t", "#let i = 5;", "# off:\r9 9", "# größer als äöüß ÄÖÜ €€€€ 😀😀😀😀 ٣٣٣٣ ÿÿÿÿÿÿÿÿÿÿÿÿÿÿÿÿ"] {
            d.push(Dev::Insert(li, c));
        }
    }
    d.push(Dev::CrlfAll);
    d.push(Dev::NoFinalNewline);
    d
}

#[derive(PartialEq, Eq, Debug, Clone)]
struct Behaviour {
    verdict: String,
    /// (line, rest of the row) for static and dynamic iteration
    stat: Vec<(usize, String)>,
    dynamic: Vec<(usize, String)>,
    log: Vec<Call>,
}

fn behaviour_n(text: &str, sigs: &[Sig], script: &[Step], max_rows: usize) -> Behaviour {
    behaviour_via(text, sigs, script, max_rows, false)
}

/// `via_dig`: the text is the source of the only Testcase of a .dig document with the same pins
fn load_via_dig(text: &str, sigs: &[Sig]) -> Result<dtr::TestCase, ObsInit> {
    use crate::digxml::{self, Pin, PinKind};
    let pins: Vec<Pin> = sigs
        .iter()
        .map(|s| {
            let p = Pin::new(if s.is_in() { PinKind::In } else { PinKind::Out }, &s.name).bits(&format!("{}", s.bits));
            match s.default() {
                Some(V::Num(n)) => p.default(digxml::Default::Value(n)),
                Some(_) => p.default(digxml::Default::Z),
                None => p,
            }
        })
        .collect();
    let doc = digxml::render(&pins, &[digxml::TestDesc { label: Some("t".into()), source: text.to_string(), extra: vec![] }]);
    match guard(DEFAULT_BUDGET, move || dtr::dig::File::parse(&doc).map_err(|e| ObsInit::ParseErr(miette_chain(&e))).and_then(|f| f.load_test(0).map_err(|e| match e {
        dtr::errors::LoadTestError::ParseError(p) => ObsInit::ParseErr(format!("{p:?}")),
        other => ObsInit::BindErr(miette_chain(&other)),
    }))) {
        Ok(r) => r,
        Err(Caught::Panic(s)) => Err(ObsInit::Panic(s)),
        Err(Caught::Watchdog) => Err(ObsInit::Watchdog),
    }
}

thread_local! {
    /// the canonical text of the program under examination: the file object is first loaded with it
    static CANONICAL: std::cell::RefCell<Option<String>> = const { std::cell::RefCell::new(None) };
}

/// The document is parsed with the canonical text and its test loaded once; then the public field
/// `test_cases[0].source` is overwritten with `text` and the test is loaded again from the same
/// file object: it is the test of the text the file now holds.
fn load_via_edited_dig(canonical: &str, text: &str, sigs: &[Sig]) -> Result<dtr::TestCase, ObsInit> {
    use crate::digxml::{self, Pin, PinKind};
    let pins: Vec<Pin> = sigs
        .iter()
        .map(|s| {
            let p = Pin::new(if s.is_in() { PinKind::In } else { PinKind::Out }, &s.name).bits(&format!("{}", s.bits));
            match s.default() {
                Some(V::Num(n)) => p.default(digxml::Default::Value(n)),
                Some(_) => p.default(digxml::Default::Z),
                None => p,
            }
        })
        .collect();
    let doc = digxml::render(&pins, &[digxml::TestDesc { label: Some("t".into()), source: canonical.to_string(), extra: vec![] }]);
    let text = text.to_string();
    match guard(DEFAULT_BUDGET, move || {
        let mut f = dtr::dig::File::parse(&doc).map_err(|e| ObsInit::ParseErr(miette_chain(&e)))?;
        let _ = f.load_test(0);
        let _ = f.load_test_by_name("t");
        f.test_cases[0].source = text;
        let g = f.clone();
        g.load_test(0).map_err(|e| match e {
            dtr::errors::LoadTestError::ParseError(p) => ObsInit::ParseErr(format!("{p:?}")),
            other => ObsInit::BindErr(miette_chain(&other)),
        })
    }) {
        Ok(r) => r,
        Err(Caught::Panic(s)) => Err(ObsInit::Panic(s)),
        Err(Caught::Watchdog) => Err(ObsInit::Watchdog),
    }
}

fn behaviour_via(text: &str, sigs: &[Sig], script: &[Step], max_rows: usize, via_dig: bool) -> Behaviour {
    let canonical = CANONICAL.with(|c| c.borrow().clone());
    let tc = match if via_dig { match &canonical { Some(c) if c != text => load_via_edited_dig(c, text, sigs), _ => load_via_dig(text, sigs) } } else { load(text, sigs, DEFAULT_BUDGET) } {
        Ok(tc) => tc,
        Err(ObsInit::ParseErr(_)) => return Behaviour { verdict: "rejected by from_str".into(), stat: vec![], dynamic: vec![], log: vec![] },
        Err(ObsInit::BindErr(_)) => return Behaviour { verdict: "rejected by with_signals".into(), stat: vec![], dynamic: vec![], log: vec![] },
        Err(o) => return Behaviour { verdict: format!("{o:?}"), stat: vec![], dynamic: vec![], log: vec![] },
    };
    let mut opts = RunOpts::new(max_rows);
    opts.repeat_last = true;
    let obs = run_loaded(&tc, sigs, true, script, &opts);
    let dynamic = obs
        .items
        .iter()
        .map(|i| match i {
            ObsItem::Row(r) => (r.line, format!("{:?} {:?}", r.inputs, r.outputs)),
            other => (0, other.brief()),
        })
        .collect();
    let stat = match run_static(&tc, max_rows, 1, DEFAULT_BUDGET) {
        StaticObs::Rows(rows, _) => rows
            .iter()
            .map(|r| match r {
                Ok(r) => (r.line, format!("{:?} {:?}", r.inputs, r.expected)),
                Err(e) => (0, e.clone()),
            })
            .collect(),
        StaticObs::NotStatic(_) => vec![(0, "not static".into())],
        other => vec![(0, format!("{other:?}"))],
    };
    // the signals the rows point to are part of the rows: a declared signal carries its expression,
    // which is the same expression under every layout (compared through Display and Debug)
    let sig_text: Vec<String> = tc.signals.iter().map(|s| format!("{s} / {s:?}")).collect();
    Behaviour { verdict: format!("accepted ({}) signals {}", obs.init.brief(), sig_text.join("; ")), stat, dynamic, log: obs.log }
}

/// Compare the behaviour of every rewriting in `layouts` (index 0 = no deviation, skipped) with the canonical layout
#[allow(clippy::too_many_arguments)]
fn examine(st: &mut Stats, u: u64, k: usize, variant: u64, ls: &[Line], layouts: &[Vec<Dev>], sigs: &[Sig], script: &[Step]) {
    let max_rows = if ls.len() > 20 { 400 } else { 40 };
    let base = apply(ls, &[]);
    let b0 = behaviour_n(&base.text, sigs, script, max_rows);
    let accepted = b0.verdict.starts_with("accepted");
    if variant == 0 && !accepted {
        st.violation("valid base program not accepted", u, format!("text:\n{}\nverdict: {}", base.text, b0.verdict), || json!({"kind": "parse", "text": base.text, "expected": ["accepted"], "observed": [crate::props::c09::describe(&base.text)]}));
        return;
    }
    st.witness(if accepted { "accepted_program" } else { "rejected_program" });
    for (li, lay) in layouts.iter().enumerate().skip(1) {
        let laid = apply(ls, lay);
        if lay.len() > 1 && !same_token_sequence(&base.text, &laid.text) {
            st.out_of_scope += 1;
            continue;
        }
        st.evals += 1;
        st.nontrivial += 1;
        let b = behaviour_n(&laid.text, sigs, script, max_rows);
        for d in lay {
            st.witness(match d {
                Dev::Gap(_, _, "") => "gap_removed",
                Dev::Gap(..) | Dev::Indent(..) | Dev::TrailingSpace(..) => "blank_space_changed",
                Dev::Respell(..) => "literal_in_another_radix",
                Dev::TrailingComment(..) => "comment_appended",
                Dev::Insert(..) => "line_inserted",
                Dev::CrlfAll | Dev::CrlfLine(_) => "crlf",
                Dev::NoFinalNewline => "no_final_newline",
                _ => "other",
            });
        }
        let mut mism: Option<String> = None;
        // the same rewritten text as the source of a test in a .dig document (every layout that
        // involves a carriage return, every fifth of the others)
        let cr = lay.iter().any(|d| matches!(d, Dev::CrlfAll | Dev::CrlfLine(_)) || matches!(d, Dev::Gap(_, _, g) | Dev::TrailingSpace(_, g) | Dev::Indent(_, g) if g.contains('\r')) || matches!(d, Dev::Insert(_, c) if c.contains('\r')));
        if accepted && (cr || li % 5 == 0) {
            // every other time through a file object that was first loaded with the canonical text and
            // whose source field was then overwritten
            if li % 2 == 0 {
                CANONICAL.with(|c| *c.borrow_mut() = Some(base.text.clone()));
                st.witness("source_field_of_a_loaded_file_edited_then_loaded_again");
            }
            let bd = behaviour_via(&laid.text, sigs, script, max_rows, true);
            CANONICAL.with(|c| *c.borrow_mut() = None);
            st.witness("rewritten_text_loaded_from_a_dig_document");
            if bd != b {
                mism = Some(format!("dig: loaded as the source of a test in a .dig document the rewritten text behaves differently ({}) than parsed directly ({})", bd.verdict, b.verdict));
            }
        }
        if mism.is_some() {
        } else if b.verdict != b0.verdict {
            mism = Some(format!("verdict: canonical layout is {}, rewritten text is {}", b0.verdict, b.verdict));
        } else if accepted {
            for (what, x0, x) in [("dynamic", &b0.dynamic, &b.dynamic), ("static", &b0.stat, &b.stat)] {
                if x0.len() != x.len() {
                    mism = Some(format!("rows: {what} iteration yields {} items, canonical layout {}", x.len(), x0.len()));
                    break;
                }
                for (kk, ((l0, r0), (l1, r1))) in x0.iter().zip(x.iter()).enumerate() {
                    if r0 != r1 {
                        mism = Some(format!("rows: {what} item {kk} differs: {r1} vs canonical {r0}"));
                        break;
                    }
                    if *l0 > 0 {
                        let want = base.row_lines.iter().position(|x| x == l0).map(|_| l0 + laid.shift[l0 - 1]);
                        if Some(*l1) != want {
                            mism = Some(format!("line: {what} item {kk} reports line {l1}; canonical line {l0} with {} lines inserted above", laid.shift[l0 - 1]));
                            break;
                        }
                    }
                }
                if mism.is_some() {
                    break;
                }
            }
            if mism.is_none() && b.log != b0.log {
                mism = Some("rows: the driver was handed different input vectors".into());
            }
        }
        if lay.len() == 2 && u % 40 == 3 && li % 997 == 0 {
            st.sample(|| json!({"canonical": base.text, "rewritten": laid.text, "deviations": format!("{lay:?}"), "verdict": b.verdict}));
        }
        if let Some(m) = mism {
            let class = m.split(':').next().unwrap_or("?").to_string();
            let kinds: Vec<&str> = lay
                .iter()
                .map(|d| match d {
                    Dev::Gap(_, _, "") => "gap removed",
                    Dev::Gap(..) | Dev::Indent(..) | Dev::TrailingSpace(..) => "blank space",
                    Dev::Respell(..) => "radix",
                    Dev::TrailingComment(..) => "comment",
                    Dev::Insert(..) => "inserted line",
                    Dev::CrlfAll | Dev::CrlfLine(_) => "crlf",
                    Dev::NoFinalNewline => "final newline",
                    _ => "other",
                })
                .collect();
            st.violation(&format!("{class} changes under [{}]", kinds.join(" + ")), (lay.len() as u64) << 56 | (k as u64) << 50 | u << 20 | li as u64 & 0xfffff, format!("canonical text:\n{}\nrewritten text ({lay:?}):\n{}\n{m}", base.text, laid.text), || {
                if m.starts_with("dig") {
                    json!({"kind": "layout", "via_dig": true, "canonical": base.text, "text": laid.text, "signals": sigs_json(sigs), "expected": ["the same behaviour whether the text is parsed directly or loaded as the source of a test in a .dig document"], "observed": ["differs when loaded from a .dig document"]})
                } else {
                    json!({"kind": "layout", "canonical": base.text, "text": laid.text, "signals": sigs_json(sigs), "expected": [format!("same behaviour as the canonical layout: {}", b0.verdict)], "observed": [format!("{} / differs from canonical ({})", b.verdict, b0.verdict)]})
                }
            });
        }
    }
}

pub fn run(tier: Tier, seed: u64) -> i32 {
    let started = Instant::now();
    let deadline = Deadline::new(tier.wall_cap());
    let sigs = sigs();
    let answer: Answer = vec![("Q".into(), V::Num(6)), ("i".into(), V::Num(3))];
    let script = vec![Step::Ans(answer)];
    let maxk = tier.pick(2, 3);
    let mut total = Stats::default();
    for k in 1..=maxk {
        let sp = space(k);
        let n = sp.count(k);
        // every valid program, and two malformed variants of it (verdict must stay "rejected")
        let label = format!("programs with {k} statements (token-boundary alphabet: literals in every radix, multi-character operators, identifiers that start like keywords) and 4 malformed variants of each x all layout rewritings with <= {} deviations", if k <= 2 { "2" } else if tier == Tier::Thorough { "2 (valid programs) / 1 (malformed variants)" } else { "1" });
        let st = par_range(&label, n * 5, &deadline, |u, st| {
            let idx = u / 5;
            let variant = u % 5;
            let body = sp.unrank(k, idx);
            let prog = Program { header: vec!["A".into(), "B".into(), "Q".into()], body };
            if prog.declares().len() > 1 {
                return;
            }
            let mut ls = lines(&prog);
            match variant {
                1 => {
                    // drop the last token of the last line (unterminated statement / short row / end without loop)
                    let last = ls.len() - 1;
                    if ls[last].toks.len() < 2 {
                        return;
                    }
                    ls[last].toks.pop();
                }
                2 => {
                    // one entry too many in / a stray token after the first body line
                    ls[1].toks.push("7".into());
                }
                3 | 4 => {
                    // the first literal of the body does not fit in 64 bits (2^64-1 / 2^63)
                    let Some((li, ti)) = ls.iter().enumerate().skip(1).find_map(|(li, l)| l.toks.iter().position(|t| is_lit(t)).map(|ti| (li, ti))) else { return };
                    ls[li].toks[ti] = if variant == 3 { "0xFFFFFFFFFFFFFFFF".into() } else { "9223372036854775808".into() };
                }
                _ => {}
            }
            let devs = singles(&ls);
            // thorough: two deviations also for the valid programs of three statements
            let layouts = up_to(&devs, if k <= 2 || (tier == Tier::Thorough && variant == 0) { 2 } else { 1 });
            examine(st, u, k, variant, &ls, &layouts, &sigs, &script);
        });
        total.merge(st);
    }
    // curated programs under every set of at most two deviations: variables and a loop counter spelt like
    // the built-in functions next to calls of those functions (a name is a call when a parenthesis
    // follows, however much blank space stands between them), literals with hexadecimal letters
    {
        let l = |n: i64| Entry::Lit(n, Radix::Dec);
        let pe = |e: Expr| Entry::Paren(e);
        let progs: Vec<Vec<Stmt>> = vec![
            vec![Stmt::Let("ite".into(), lit(1)), Stmt::Row(vec![pe(ite(lit(1), lit(2), lit(3))), pe(name("ite")), Entry::X]), Stmt::Row(vec![pe(ite(name("ite"), Expr::Lit(0xAB, Radix::Hex), lit(3))), l(1), Entry::X])],
            vec![Stmt::Loop("random".into(), lit(2), vec![Stmt::Row(vec![pe(name("random")), pe(ite(name("random"), lit(7), lit(8))), Entry::X])]), Stmt::Let("signExt".into(), Expr::Lit(0xbeef, Radix::Hex)), Stmt::Row(vec![pe(bin(BinOp::And, name("signExt"), Expr::Lit(0xF0, Radix::Hex))), l(0), Entry::X])],
        ];
        let st = par_range("curated programs (names spelt like built-in functions next to calls; hexadecimal literals) x every set of <= 2 deviations", progs.len() as u64, &deadline, |u, st| {
            let prog = Program { header: vec!["A".into(), "B".into(), "Q".into()], body: progs[u as usize].clone() };
            let ls = lines(&prog);
            let devs = singles(&ls);
            let layouts = up_to(&devs, 2);
            st.witness("curated_program");
            examine(st, (2 << 40) + u, 9, 0, &ls, &layouts, &sigs, &script);
        });
        total.merge(st);
    }
    // long programs (more lines than any line is long): deviations applied to one line, to every
    // line at once, and CRLF throughout
    {
        let l = |n: i64| Entry::Lit(n, Radix::Dec);
        let sizes: Vec<usize> = tier.pick(vec![9, 30], vec![9, 18, 30, 45, 90]);
        let st = par_range("long programs (9..90 short rows, a loop in the middle) x {one deviation on one line, the same deviation on every line, CRLF throughout}", sizes.len() as u64, &deadline, |u, st| {
            let n = sizes[u as usize];
            let short = |j: usize| Stmt::Row(vec![l((j % 10) as i64), l(0), l(1)]);
            let mut body: Vec<Stmt> = (0..n / 3).map(short).collect();
            body.push(Stmt::Loop("i".into(), lit(2), (0..n / 3).map(short).collect()));
            body.extend((0..n / 3).map(short));
            let prog = Program { header: vec!["A".into(), "B".into(), "Q".into()], body };
            let ls = lines(&prog);
            let mut layouts: Vec<Vec<Dev>> = vec![vec![]];
            layouts.push(vec![Dev::CrlfAll]);
            layouts.push(vec![Dev::CrlfAll, Dev::NoFinalNewline]);
            for li in 0..ls.len() {
                for d in [Dev::CrlfLine(li), Dev::Insert(li, ""), Dev::Insert(li, "# c"), Dev::TrailingSpace(li, " \r"), Dev::Indent(li, " \t")] {
                    layouts.push(vec![d]);
                }
                if li > 0 {
                    layouts.push(vec![Dev::TrailingComment(li, " # c")]);
                }
            }
            layouts.push((0..ls.len()).map(|li| Dev::Insert(li, "")).collect());
            layouts.push((0..ls.len()).map(|li| Dev::Insert(li, "#let i = 5;")).collect());
            layouts.push((0..ls.len()).map(|li| Dev::Insert(li, "# ä€😀")).collect());
            layouts.push(vec![Dev::Insert(0, "# größer als äöüß ÄÖÜ €€€€ 😀😀😀😀 ٣٣٣٣ ÿÿÿÿÿÿÿÿÿÿÿÿÿÿÿÿ")]);
            layouts.push((0..ls.len()).map(|li| Dev::TrailingSpace(li, " \r")).collect());
            layouts.push((0..ls.len()).map(|li| Dev::Indent(li, "\t ")).collect());
            layouts.push((1..ls.len()).map(|li| Dev::TrailingComment(li, "# c")).collect());
            layouts.push((0..ls.len()).map(|li| Dev::CrlfLine(li)).filter(|d| matches!(d, Dev::CrlfLine(x) if x % 2 == 0)).collect());
            st.witness("long_program");
            examine(st, (1 << 40) + u, 9, 0, &ls, &layouts, &sigs, &script);
        });
        total.merge(st);
    }
    // far beyond the enumerated scope: 70 000 lines inserted (blank, comment-only, CRLF) in front of
    // the second row: every row keeps its values, the rows behind the insertion report a line that is
    // larger by exactly that number
    {
        let script = vec![Step::Ans(vec![("Q".into(), V::Num(3)), ("i".into(), V::Num(2))])];
        let head = "A B Q\n1 2 X\n";
        let tail = "3 4 5\nloop(k,2)\n(k) C X\nend loop\nrepeat(2) 7 (Q) X\n";
        let mut pad = String::new();
        for j in 0..70_000 {
            pad.push_str(if j % 3 == 0 { "# c\n" } else if j % 3 == 1 { "\r\n" } else { " \t\n" });
        }
        let a = behaviour_n(&format!("{head}{tail}"), &sigs, &script, 30);
        let b = behaviour_n(&format!("{head}{pad}{tail}"), &sigs, &script, 30);
        total.evals += 1;
        total.nontrivial += 1;
        total.witness("seventy_thousand_lines_inserted");
        let shift = |rows: &[(usize, String)]| -> Vec<(usize, String)> { rows.iter().map(|(l, r)| (if *l > 2 { l + 70_000 } else { *l }, r.clone())).collect() };
        if a.verdict != b.verdict || shift(&a.dynamic) != b.dynamic || shift(&a.stat) != b.stat {
            let k = shift(&a.dynamic).iter().zip(b.dynamic.iter()).position(|(x, y)| x != y);
            total.violation("line changes under [70000 inserted lines]", 1 << 59, format!("70000 blank / comment-only lines inserted in front of the second row\nverdict {} -> {}\nfirst differing dynamic row {k:?}: expected {:?}, got {:?}", a.verdict, b.verdict, k.and_then(|k| shift(&a.dynamic).get(k).cloned()), k.and_then(|k| b.dynamic.get(k))), || json!({"kind": "none", "text": "header, row, 70000 inserted lines, rows", "expected": [format!("{:?}", shift(&a.dynamic))], "observed": [format!("{:?}", b.dynamic)]}));
        }
    }
    let meta = CheckMeta {
        id: "C20",
        tier,
        seed,
        rule: "every program of the space (and two malformed variants of each) x every set of at most 2 layout deviations: each inter-token gap -> {two spaces, tab, ' \\r', '\\r ', tab-space-tab, nothing (only where the reference lexer still reads the same two tokens)}, indentation, trailing blank space, '#' comment appended to a line after the header, blank/comment line inserted anywhere after the header, CRLF on one line or all, no final newline, each literal -> every other radix spelling; plus long programs of 9..90 short rows under one deviation on one line / on every line / CRLF throughout; metamorphic comparison with the canonical layout; every rewriting is non-trivial".into(),
        assumptions: vec!["no reference semantics: only pairwise equality of verdict, rows (static and dynamic) and the vectors the driver was handed; which token pairs may be joined is decided by the reference lexer (refgrammar::lex)".into()],
        required_witnesses: vec!["accepted_program", "rejected_program", "gap_removed", "blank_space_changed", "literal_in_another_radix", "comment_appended", "line_inserted", "crlf", "no_final_newline", "long_program", "seventy_thousand_lines_inserted", "rewritten_text_loaded_from_a_dig_document", "source_field_of_a_loaded_file_edited_then_loaded_again"],
        exhaustive_note: "all programs x all rewritings within the bounds".into(),
        e1: false,
    };
    finish(meta, total, started)
}

pub fn replay_layout(j: &serde_json::Value) -> Vec<String> {
    let sigs: Vec<Sig> = j["signals"].as_array().map(|a| a.iter().filter_map(|s| s.as_str().and_then(Sig::parse)).collect()).unwrap_or_default();
    let script = vec![Step::Ans(vec![("Q".into(), V::Num(6)), ("i".into(), V::Num(3))])];
    let canonical = j["canonical"].as_str().unwrap_or("");
    let max_rows = if canonical.lines().count() > 20 { 400 } else { 40 };
    let b0 = behaviour_n(canonical, &sigs, &script, max_rows);
    let b = behaviour_n(j["text"].as_str().unwrap_or(""), &sigs, &script, max_rows);
    if j["via_dig"].as_bool().unwrap_or(false) {
        CANONICAL.with(|c| *c.borrow_mut() = Some(canonical.to_string()));
        let bd1 = behaviour_via(j["text"].as_str().unwrap_or(""), &sigs, &script, max_rows, true);
        CANONICAL.with(|c| *c.borrow_mut() = None);
        let bd2 = behaviour_via(j["text"].as_str().unwrap_or(""), &sigs, &script, max_rows, true);
        let bd = if bd1 != b { bd1 } else { bd2 };
        return vec![if bd == b { "same behaviour when loaded from a .dig document".to_string() } else { "differs when loaded from a .dig document".to_string() }];
    }
    vec![if b == b0 { "same behaviour as the canonical layout".to_string() } else { format!("{} / differs from canonical ({})", b.verdict, b0.verdict) }]
}
