//! C10 — running an accepted test never panics; runtime problems are error items
//! (DESIGN §6/C10). Targeted hostile space (one dangerous expression in every expression
//! position x boundary operands x signal widths x driver behaviours) plus re-used corpora
//! under the never-panics / error-item-where-predicted oracle.

use crate::driver::*;
use crate::engine::*;
use crate::model::*;
use crate::props::util::*;
use crate::props::{c01, c08, c11};
use crate::refsem::*;
use crate::space::*;
use crate::subject::*;
use serde_json::json;
use std::time::Instant;

const POSITIONS: [&str; 9] = ["row entry", "bits argument", "let", "loop bound", "repeat bound", "while condition", "declaration", "ite branch", "declaration with rows inside loops"];

fn sigs(w: usize) -> Vec<Sig> {
    vec![Sig::inp("A", w, 0), Sig::out("O", w), Sig::bidir("D", w, V::Num(0)), Sig::out("p", 64), Sig::out("q", 64)]
}

fn l(n: i64) -> Entry {
    Entry::Lit(n, Radix::Dec)
}

/// header A O D D_out; the dangerous expression `e` in position `pos`
fn place(e: &Expr, pos: usize) -> Vec<Stmt> {
    let plain = || Stmt::Row(vec![l(1), Entry::X, l(0), Entry::X]);
    match pos {
        0 => vec![Stmt::Row(vec![Entry::Paren(e.clone()), Entry::Paren(e.clone()), Entry::Paren(e.clone()), Entry::Paren(e.clone())]), plain()],
        1 => vec![Stmt::Row(vec![Entry::Bits(2, e.clone()), l(0), Entry::X]), plain()],
        2 => vec![Stmt::Let("v".into(), e.clone()), Stmt::Row(vec![Entry::Paren(name("v")), Entry::X, l(0), Entry::Paren(name("v"))]), plain()],
        3 => vec![Stmt::Loop("i".into(), e.clone(), vec![Stmt::Row(vec![Entry::Paren(name("i")), Entry::X, l(0), Entry::X])]), plain()],
        4 => vec![Stmt::Repeat(e.clone(), vec![Entry::Paren(name("n")), Entry::X, l(0), Entry::X]), plain()],
        5 => vec![Stmt::While(e.clone(), vec![plain()]), plain()],
        6 => vec![Stmt::Declare("V".into(), e.clone()), plain(), plain()],
        7 => vec![Stmt::Row(vec![Entry::Paren(ite(name("p"), e.clone(), lit(1))), Entry::Paren(ite(name("p"), lit(2), e.clone())), l(0), Entry::X]), plain()],
        // the declared signal is evaluated for rows inside loops (three rows, then one, then one at depth 2)
        _ => vec![
            Stmt::Declare("V".into(), e.clone()),
            Stmt::Let("v".into(), lit(1)),
            Stmt::Loop("i".into(), lit(3), vec![Stmt::Row(vec![Entry::Paren(name("i")), Entry::X, l(0), Entry::X])]),
            Stmt::Loop("j".into(), lit(1), vec![plain(), Stmt::Loop("k".into(), lit(1), vec![Stmt::Row(vec![Entry::Paren(name("v")), Entry::X, l(0), Entry::X])])]),
            plain(),
        ],
    }
}

fn header() -> Vec<String> {
    ["A", "O", "D", "D_out"].iter().map(|s| s.to_string()).collect()
}

fn answer(p: V, q: V, with_q: bool) -> Answer {
    let mut a: Answer = vec![("O".into(), V::Num(1)), ("D".into(), V::Num(1)), ("p".into(), p)];
    if with_q {
        a.push(("q".into(), q));
    }
    a
}

/// Run one (program, signals, script) case: never panic; items are rows / error items /
/// the end exactly where the reference predicts them (kinds only, values are C08's).
fn run_case(st: &mut Stats, order: u64, what: &str, prog: &Program, sigs: &[Sig], script: &[Step], repeat_last: bool) {
    run_case_n(st, order, what, prog, sigs, script, repeat_last, 8)
}

#[allow(clippy::too_many_arguments)]
fn run_case_n(st: &mut Stats, order: u64, what: &str, prog: &Program, sigs: &[Sig], script: &[Step], repeat_last: bool, max_items: usize) {
    let text = text(prog);
    st.evals += 1;
    let mut env = ScriptEnv::new(script);
    env.repeat_last = repeat_last;
    let r = crate::refsem::run(prog, sigs, &mut env, Fuel { steps: 300 + 40 * max_items, rows: max_items + 4 });
    let mut opts = RunOpts::new(max_items);
    opts.repeat_last = repeat_last;
    opts.collect_vars = true;
    opts.budget = 50_000;
    let tc = load(&text, sigs, DEFAULT_BUDGET);
    let obs = match &tc {
        Ok(tc) => run_loaded(tc, sigs, true, script, &opts),
        Err(i) => not_loaded(i),
    };
    st.steps += obs.items.len() as u64;
    let fail = |st: &mut Stats, class: String, m: String| {
        let summary = format!("{what}\nsignals: {}\nprogram:\n{text}script: {}\n{m}", sigs.iter().map(|s| s.show()).collect::<Vec<_>>().join(", "), script.iter().map(|s| s.json().to_string()).collect::<Vec<_>>().join(" "));
        st.violation(&class, order, summary, || dyn_replay(&text, sigs, true, script, &opts, crate::compare::ref_items_brief(&r), &obs, &m));
    };
    // never panics: construction, next(), vars(), static iteration
    if let ObsInit::Panic(s) = &obs.init {
        return fail(st, format!("panic at construction {}", panic_site(s)), format!("try_iter / from_str / with_signals panicked: {s}"));
    }
    if let Some(ObsItem::Panic(s)) = obs.items.iter().find(|i| matches!(i, ObsItem::Panic(_))) {
        return fail(st, format!("next() panics {}", panic_site(s)), format!("next() panicked: {s}"));
    }
    if let Some(s) = &obs.vars_panic {
        return fail(st, "vars() panics".into(), format!("vars() panicked: {s}"));
    }
    if let Ok(tc) = &tc {
        match run_static(tc, max_items, 1, 50_000) {
            StaticObs::Panic(s) => return fail(st, format!("static iteration panics {}", panic_site(&s)), format!("try_iter_static / its next() panicked: {s}")),
            StaticObs::Rows(..) => st.witness("static_iteration_exercised"),
            _ => {}
        }
    }
    if matches!(obs.init, ObsInit::ParseErr(_) | ObsInit::BindErr(_)) {
        // not an accepted test: nothing to run (whether it should have been accepted is C11/C12's)
        st.out_of_scope += 1;
        return;
    }
    st.nontrivial += 1;
    // error items where the listed conditions arise, rows otherwise (kinds only)
    if !crate::compare::init_matches(&r.init, &obs.init) {
        return fail(st, "construction".into(), format!("construction: expected {:?}, got {}", r.init, obs.init.brief()));
    }
    for (k, ri) in r.items.iter().enumerate().take(max_items) {
        let Some(oi) = obs.items.get(k) else { break };
        let (want, kind_ok) = match ri {
            RefItem::Row(_) => ("a row", oi.is_row()),
            RefItem::ExprErr(e) | RefItem::VirtErr(e) => {
                st.witness(match e {
                    RefErr::DivZero => "division_or_remainder_by_zero",
                    RefErr::Unassigned(_) => "variable_never_assigned_on_the_executed_path",
                    RefErr::NonNumeric(..) => "read_of_Z_or_X",
                    RefErr::EmptyRandom(_) => "empty_random_range",
                    RefErr::NotImplemented => "function_not_implemented",
                });
                ("an error item", matches!(oi, ObsItem::Runtime(_)))
            }
            RefItem::DriverErr(_) => ("a driver error item", matches!(oi, ObsItem::DriverErr(_))),
        };
        if !kind_ok {
            if *oi == ObsItem::Watchdog {
                return fail(st, "next() does not return".into(), format!("item {k}: next() did not return within the step budget; expected {want}"));
            }
            let class = if want == "an error item" { "condition does not surface as an error item" } else { "unexpected item kind" };
            return fail(st, class.into(), format!("item {k}: expected {want} ({}), got {}", crate::compare::ref_brief(ri), oi.brief()));
        }
    }
    if r.end == RefEnd::Done && r.items.len() < max_items {
        if let Some(oi) = obs.items.get(r.items.len()) {
            if *oi != ObsItem::End {
                return fail(st, "unexpected item kind".into(), format!("item {}: expected the end of the iteration, got {}", r.items.len(), oi.brief()));
            }
        }
    }
    st.outcome(&obs.items.iter().map(|i| std::mem::discriminant(i)).collect::<Vec<_>>());
    // the iterator is not fused: a caller that carries on after an error item must not be
    // met by a panic either (a next() that does not return is not judged here: the rest of the
    // program may simply not terminate)
    if let (Ok(tc), true) = (&tc, obs.items.iter().any(|i| matches!(i, ObsItem::Runtime(_) | ObsItem::DriverErr(_)))) {
        let mut o2 = opts.clone();
        o2.continue_after_error = true;
        o2.max_next = max_items + 6;
        let again = run_loaded(tc, sigs, true, script, &o2);
        st.steps += again.items.len() as u64;
        st.witness("caller_carries_on_after_an_error_item");
        if let Some(ObsItem::Panic(s)) = again.items.iter().find(|i| matches!(i, ObsItem::Panic(_))) {
            return fail(st, format!("next() panics after an error item {}", panic_site(s)), format!("the caller carried on after an error item and next() panicked: {s}"));
        }
        if let Some(s) = &again.vars_panic {
            return fail(st, "vars() panics".into(), format!("vars() panicked after an error item: {s}"));
        }
    }
}

pub fn run(tier: Tier, seed: u64) -> i32 {
    let started = Instant::now();
    let deadline = Deadline::new(tier.wall_cap());
    let mut total = Stats::default();
    let vals = c08::operand_values();
    let widths = [1usize, 2, 63, 64];
    let ops = [BinOp::Div, BinOp::Rem, BinOp::Add, BinOp::Sub, BinOp::Mul, BinOp::Shl, BinOp::Shr];

    // T1: arithmetic over boundary operands read from the device, in every position
    let n = (ops.len() as u64 + 2) * (vals.len() * vals.len()) as u64 * POSITIONS.len() as u64;
    let st = par_range("T1: {/ % + - * << >> unary- random(p)+random(q-p)} x V^2 boundary operands (read from 64-bit device outputs) x 9 expression positions; width cycles over {1,2,63,64}", n, &deadline, |idx, st| {
        let d = digits(idx, &[POSITIONS.len() as u64, vals.len() as u64, vals.len() as u64, ops.len() as u64 + 2]);
        let (pos, x, y, oi) = (d[0], vals[d[1]], vals[d[2]], d[3]);
        let e = if oi < ops.len() {
            bin(ops[oi], name("p"), name("q"))
        } else if oi == ops.len() {
            un(UnOp::Neg, bin(BinOp::Sub, name("p"), name("q")))
        } else {
            // a bound read from the device: every boundary value, MIN and MAX included
            bin(BinOp::Add, random(name("p")), random(bin(BinOp::Sub, name("q"), name("p"))))
        };
        let w = widths[(idx % 4) as usize];
        let prog = Program { header: header(), body: place(&e, pos) };
        let script = vec![Step::Ans(answer(V::Num(x), V::Num(y), true))];
        st.witness(POSITIONS[pos]);
        if w >= 63 {
            st.witness("signal_width_63_or_64");
        }
        run_case(st, idx, &format!("T1: {} in position '{}', p={x} q={y}, width {w}", expr_text(&e), POSITIONS[pos]), &prog, &sigs(w), &script, true);
    });
    total.merge(st);

    // T2: literal operands, random with small bounds, signExt, in every position and width
    let mut exprs: Vec<Expr> = vec![];
    for b in [-1i64, 0, 1, 2, 3] {
        exprs.push(random(if b < 0 { un(UnOp::Neg, lit(-b)) } else { lit(b) }));
    }
    exprs.push(Expr::SignExt(Box::new(lit(4)), Box::new(lit(15))));
    exprs.push(Expr::SignExt(Box::new(bin(BinOp::Div, lit(1), lit(0))), Box::new(lit(15))));
    for (a, b) in [(1i64, 0i64), (0, 0), (i64::MAX, 1), (i64::MAX, i64::MAX), (1, 64), (1, 63), (1, 65), (7, 0)] {
        for op in ops {
            exprs.push(bin(op, lit(a), lit(b)));
        }
    }
    // evaluation is strict: an operand that cannot be evaluated is an error whatever the other one is
    for op in BINOPS {
        for other in [0i64, 1] {
            exprs.push(bin(op, lit(other), group(bin(BinOp::Div, lit(1), lit(0)))));
            exprs.push(bin(op, group(bin(BinOp::Rem, lit(1), lit(0))), lit(other)));
            exprs.push(bin(op, lit(other), random(lit(1))));
        }
    }
    exprs.push(bin(BinOp::Div, un(UnOp::Neg, bin(BinOp::Sub, un(UnOp::Neg, lit(i64::MAX)), lit(1))), un(UnOp::Neg, lit(1))));
    exprs.push(bin(BinOp::Div, bin(BinOp::Shl, lit(1), lit(63)), un(UnOp::Neg, lit(1))));
    exprs.push(bin(BinOp::Rem, bin(BinOp::Shl, lit(1), lit(63)), un(UnOp::Neg, lit(1))));
    exprs.push(un(UnOp::Neg, bin(BinOp::Shl, lit(1), lit(63))));
    let n = exprs.len() as u64 * POSITIONS.len() as u64 * 4;
    let st = par_range("T2: literal-operand arithmetic, random(b) for b in {-1,0,1,2,3}, signExt x 8 positions x 4 widths", n, &deadline, |idx, st| {
        let d = digits(idx, &[4, POSITIONS.len() as u64, exprs.len() as u64]);
        let (w, pos, e) = (widths[d[0]], d[1], &exprs[d[2]]);
        let prog = Program { header: header(), body: place(e, pos) };
        let script = vec![Step::Ans(answer(V::Num(1), V::Num(1), true))];
        run_case(st, (1 << 40) + idx, &format!("T2: {} in position '{}', width {w}", expr_text(e), POSITIONS[pos]), &prog, &sigs(w), &script, true);
    });
    total.merge(st);

    // T3: variables that are in scope for the parser but never assigned on the executed path
    let plain = || Stmt::Row(vec![l(1), Entry::X, l(0), Entry::X]);
    let rd = |x: &str| Stmt::Row(vec![Entry::Paren(name(x)), Entry::X, l(0), Entry::X]);
    let shapes: Vec<(&str, Vec<Stmt>)> = vec![
        ("assigned only inside while(0)", vec![Stmt::While(lit(0), vec![Stmt::Let("v".into(), lit(1))]), rd("v")]),
        ("assigned inside while(p), p from the device", vec![Stmt::While(name("p"), vec![Stmt::Let("v".into(), lit(1)), plain()]), rd("v")]),
        ("name that is both a device output and such a variable", vec![Stmt::While(lit(0), vec![Stmt::Let("q".into(), lit(1))]), rd("q")]),
        ("read in a let", vec![Stmt::While(lit(0), vec![Stmt::Let("v".into(), lit(1))]), Stmt::Let("u".into(), bin(BinOp::Add, name("v"), lit(1))), plain()]),
        ("read as a loop bound", vec![Stmt::While(lit(0), vec![Stmt::Let("v".into(), lit(1))]), Stmt::Loop("i".into(), name("v"), vec![plain()]), plain()]),
        ("read in a while condition", vec![Stmt::While(lit(0), vec![Stmt::Let("v".into(), lit(1))]), Stmt::While(name("v"), vec![plain()]), plain()]),
        ("assigned in a loop that ran, read after a while(0) re-declares it", vec![Stmt::Loop("i".into(), lit(1), vec![Stmt::While(lit(0), vec![Stmt::Let("v".into(), lit(1))]), rd("v")]), plain()]),
        ("counter pushed to MAX by a let in the body", vec![Stmt::Loop("i".into(), lit(3), vec![Stmt::Let("i".into(), Expr::Lit(i64::MAX, Radix::Hex)), Stmt::Row(vec![Entry::Paren(bin(BinOp::Add, name("i"), lit(1))), Entry::X, l(0), Entry::X])]), plain()]),
        ("bits(0, e)", vec![Stmt::Row(vec![Entry::Bits(0, name("p")), l(1), Entry::X, l(0), Entry::X]), plain()]),
    ];
    let pvals = [V::Num(0), V::Num(1), V::Z, V::X];
    let n = shapes.len() as u64 * pvals.len() as u64 * 4;
    let st = par_range("T3: unassigned-variable shapes, runaway counter, bits(0) x device value p in {0,1,Z,X} x 4 widths", n, &deadline, |idx, st| {
        let d = digits(idx, &[4, pvals.len() as u64, shapes.len() as u64]);
        let (w, p, (nm, body)) = (widths[d[0]], pvals[d[1]], &shapes[d[2]]);
        let prog = Program { header: header(), body: body.clone() };
        let script = vec![Step::Ans(answer(p, V::Num(5), true))];
        run_case(st, (2 << 40) + idx, &format!("T3: {nm}, p={}, width {w}", p.show()), &prog, &sigs(w), &script, true);
    });
    total.merge(st);

    // T4: contract-honouring drivers: Z/X values, subsets as layouts, an error at each call index
    let e = bin(BinOp::Add, name("p"), name("q"));
    let n = POSITIONS.len() as u64 * 4 * 9;
    let st = par_range("T4: p+q in 8 positions x 4 widths x {Z/X for p or q, layout without q, driver error at call 0..4}", n, &deadline, |idx, st| {
        let d = digits(idx, &[9, 4, POSITIONS.len() as u64]);
        let (plan, w, pos) = (d[0], widths[d[1]], d[2]);
        let prog = Program { header: header(), body: place(&e, pos) };
        let ok = Step::Ans(answer(V::Num(1), V::Num(2), true));
        let script: Vec<Step> = match plan {
            0 => vec![Step::Ans(answer(V::Z, V::Num(2), true))],
            1 => vec![Step::Ans(answer(V::Num(1), V::X, true))],
            2 => vec![ok.clone(), Step::Ans(answer(V::Z, V::Z, true))],
            3 => vec![Step::Ans(answer(V::Num(1), V::Num(2), false))],
            k => (0..6).map(|c| if c == k - 4 { Step::Fault(9) } else { ok.clone() }).collect(),
        };
        st.witness(if plan >= 4 { "driver_error_at_a_call" } else if plan == 3 { "layout_omits_a_read_output" } else { "driver_returns_Z_or_X" });
        run_case(st, (3 << 40) + idx, &format!("T4: p+q in position '{}', width {w}, driver plan {plan}", POSITIONS[pos]), &prog, &sigs(w), &script, true);
    });
    total.merge(st);

    // T5: bits(64, e) over 64 one-bit inputs
    {
        let mut s5: Vec<Sig> = (0..64).map(|i| Sig::inp(&format!("I{i}"), 1, 0)).collect();
        s5.push(Sig::out("p", 64));
        let mut h: Vec<String> = (0..64).map(|i| format!("I{i}")).collect();
        h.push("p".into());
        let st = par_range("T5: bits(64, p) over 64 one-bit inputs x boundary values", vals.len() as u64, &deadline, |idx, st| {
            let prog = Program { header: h.clone(), body: vec![Stmt::Row(vec![Entry::Bits(64, name("p")), Entry::X]), Stmt::Row(vec![Entry::Bits(63, un(UnOp::Neg, name("p"))), Entry::C, Entry::Z])] };
            let script = vec![Step::Ans(vec![("p".into(), V::Num(vals[idx as usize]))])];
            st.witness("bits_64");
            run_case(st, (4 << 40) + idx, &format!("T5: bits(64,p), p={}", vals[idx as usize]), &prog, &s5, &script, true);
        });
        total.merge(st);
    }

    // T5b: 63 / 64 / 70 X inputs in one row, pulled lazily (2^64 and more executed rows); each case in a
    // child process under a 4 GB memory limit (see C05): neither a panic nor an abort
    for nx in [63usize, 64, 70] {
        total.evals += 1;
        total.nontrivial += 1;
        total.witness("sixty_four_and_more_x_inputs");
        if let Some(m) = crate::props::c05::xcase_in_child(nx, true) {
            if m.contains("PANIC") || m.contains("Panic") || m.contains("panic") || m.contains("abnormally") {
                total.violation("next() panics or the process aborts on a row with many X inputs", (9 << 40) + nx as u64, format!("T5b: {nx} X inputs and a clock in one row\n{m}"), || json!({"kind": "xcase", "nx": nx, "with_c": true, "expected": ["rows"], "observed": [m.clone()]}));
            }
        }
    }

    // T9: widths outside 1..=64 (a signal list is plain data: `Signal::input("EN", 0, 0)`, a .dig pin
    // with Bits 0 or 100): whatever such a signal carries, an accepted test runs without a panic
    {
        let ws = [0usize, 65, 100, 128, 1 << 20, usize::MAX];
        let n = (ws.len() * 4 * 3) as u64;
        let st = par_range("T9: signal widths 0, 65, 100, 128, 2^20, usize::MAX for the input / output / bidirectional / every signal of a test x 3 programs", n, &deadline, |idx, st| {
            let d = digits(idx, &[3, 4, ws.len() as u64]);
            let w = ws[d[2]];
            let pick = |k: usize| if d[1] == k || d[1] == 3 { w } else { 4 };
            let s9 = vec![Sig::inp("A", pick(0), 3), Sig::bidir("B", pick(2), V::Num(1)), Sig::inp("CLK", 1, 0), Sig::out("Q", pick(1))];
            let l = |n: i64| Entry::Lit(n, Radix::Dec);
            let neg = Entry::Paren(bin(BinOp::Sub, lit(0), lit(1)));
            let body = match d[0] {
                0 => vec![Stmt::Row(vec![l(5), neg.clone(), l(0), neg.clone(), Entry::X]), Stmt::Row(vec![Entry::X, Entry::Z, Entry::C, l(7), l(3)]), Stmt::Row(vec![neg.clone(), l(2), l(1), Entry::Z, Entry::Z])],
                1 => vec![Stmt::Declare("V".into(), bin(BinOp::Add, name("Q"), name("B"))), Stmt::Loop("i".into(), lit(2), vec![Stmt::Row(vec![Entry::Paren(name("Q")), Entry::Paren(name("i")), Entry::C, Entry::X, neg.clone()])])],
                _ => vec![Stmt::Row(vec![Entry::Bits(2, lit(2)), l(1), l(1), l(1)]), Stmt::Repeat(lit(2), vec![Entry::Z, Entry::X, Entry::X, Entry::X, Entry::X])],
            };
            let header: Vec<String> = if d[0] == 2 { vec!["A".into(), "B".into(), "CLK".into(), "B_out".into(), "Q".into()] } else { vec!["A".into(), "B".into(), "CLK".into(), "B_out".into(), "Q".into()] };
            let prog = Program { header, body };
            st.witness("signal_width_outside_1_to_64");
            run_case_n(st, (10 << 40) + idx, &format!("T9: width {w} for {}", ["the input A", "the output Q", "the bidirectional B", "every signal"][d[1]]), &prog, &s9, &[Step::Ans(vec![("Q".into(), V::Num(-1)), ("B".into(), V::Num(300))])], true, 12);
        });
        total.merge(st);
    }

    // T6: the C01/C18 program space under hostile constant answers
    let lists = c01::signal_lists();
    let hdr: Vec<String> = ["P0", "P1", "P2", "a", "i", "n", "Q"].iter().map(|s| s.to_string()).collect();
    let (atoms, blocks) = c01::alphabet(true, false);
    let hostile = [V::Num(0), V::Num(1), V::Num(-1), V::Num(i64::MAX), V::Num(i64::MIN), V::Z, V::X];
    for k in 1..=tier.pick(3, 4) {
        let sp = ForestSpace::new(atoms.clone(), blocks.clone(), 3, k);
        let st = par_range(&format!("T6: programs with {k} statements of the C01/C18 alphabet x constant device answers in {{0,1,-1,MAX,MIN,Z,X}}"), sp.count(k), &deadline, |idx, st| {
            let body = sp.unrank(k, idx);
            if k == 4 && (idx % 7 != 0) {
                return;
            }
            let prog = Program { header: hdr.clone(), body };
            for (vi, v) in hostile.iter().enumerate() {
                let ans: Answer = lists[0].iter().filter(|s| s.is_out()).map(|s| (s.name.clone(), *v)).collect();
                run_case(st, (5 << 40) + (idx << 3) + vi as u64, &format!("T6: every output answers {}", v.show()), &prog, &lists[0], &[Step::Ans(ans)], true);
            }
        });
        total.merge(st);
    }

    // T8: histories of rows: every ordered sequence of 2 (thorough: 3) rows over {0,1,X,C}^3 x {X,2}
    // with two clock columns, run to the end (what one row leaves behind must not trip the next)
    {
        let s8 = vec![Sig::inp("C1", 1, 0), Sig::inp("C2", 1, 0), Sig::out("Q", 4), Sig::inp("A", 1, 0)];
        let h8: Vec<String> = ["C1", "C2", "A", "Q"].iter().map(|s| s.to_string()).collect();
        let one = [l(0), l(1), Entry::X, Entry::C];
        let per_row = 4u64 * 4 * 4 * 2;
        for nrows in 2..=tier.pick(2, 3) {
            let st = par_range(&format!("T8: every sequence of {nrows} rows over {{0,1,X,C}}^3 x {{X,2}} (two clock columns), top level and inside loop(k,2)"), per_row.pow(nrows as u32) * 2, &deadline, |idx, st| {
                let mut rest = idx / 2;
                let mut rows = vec![];
                for _ in 0..nrows {
                    let d = digits(rest % per_row, &[4, 4, 4, 2]);
                    rest /= per_row;
                    rows.push(Stmt::Row(vec![one[d[0]].clone(), one[d[1]].clone(), one[d[2]].clone(), if d[3] == 0 { Entry::X } else { l(2) }]));
                }
                let body = if idx % 2 == 0 { rows } else { vec![Stmt::Loop("k".into(), lit(2), rows)] };
                let prog = Program { header: h8.clone(), body };
                st.witness("history_of_rows");
                run_case_n(st, (7 << 40) + idx, "T8: history of rows", &prog, &s8, &[Step::Ans(vec![("Q".into(), V::Num(2))])], true, 40);
            });
            total.merge(st);
        }
    }

    // T9: whatever from_str and with_signals accept of the texts beyond the small scope (long names,
    // wide headers, chains through all precedence levels, built-in functions in other letter case
    // and with any number of arguments, literals around 2^63) runs without panicking
    {
        let texts = crate::props::c09::beyond_small_scope();
        let st = par_range("T9: texts beyond the small scope that are accepted, iterated (dynamic and static)", texts.len() as u64, &deadline, |u, st| {
            let text = &texts[u as usize];
            let Ok(Ok(parsed)) = parse(text, DEFAULT_BUDGET) else { return };
            let sg: Vec<Sig> = parsed.signals.iter().map(|n| Sig::inp(n, 8, 0)).collect();
            let real = sg.iter().map(|s| s.to_real()).collect();
            let Ok(Ok(tc)) = guard(DEFAULT_BUDGET, move || parsed.with_signals(real)) else { return };
            st.evals += 1;
            st.nontrivial += 1;
            st.witness("accepted_text_beyond_the_small_scope_iterated");
            let script = vec![Step::Ans(vec![])];
            let mut opts = RunOpts::new(12);
            opts.repeat_last = true;
            opts.collect_vars = true;
            opts.continue_after_error = true;
            let obs = run_loaded(&tc, &sg, true, &script, &opts);
            let mut bad = match &obs.init {
                ObsInit::Panic(s) => Some(s.clone()),
                _ => obs.items.iter().find_map(|i| if let ObsItem::Panic(s) = i { Some(s.clone()) } else { None }).or(obs.vars_panic.clone()),
            };
            if bad.is_none() {
                if let StaticObs::Panic(s) = run_static_opt(&tc, 12, 1, 50_000, true) {
                    bad = Some(s);
                }
            }
            if let Some(s) = bad {
                st.violation(&format!("accepted test panics {}", panic_site(&s)), (8 << 40) + u, format!("T9: accepted, panics when run\ntext: {text:?}\n{s}"), || dyn_replay(text, &sg, true, &script, &opts, vec!["rows / error items / end".into()], &obs, &s));
            }
        });
        total.merge(st);
    }

    // T7: whatever with_signals accepts from the C11 menu must run without panicking
    {
        let menu: Vec<Sig> = vec![Sig::inp("A", 4, 0), Sig::out("A", 4), Sig::bidir("A", 4, V::Num(18)), Sig::inp("B", 4, 1), Sig::out("Q", 4), Sig::inp("Q", 4, 0), Sig::bidir("Q", 4, V::Z), Sig::out("A_out", 4), Sig::out("V", 4), Sig::inp("A_out", 4, 0), Sig::inp("Q_out", 1, 1)];
        let lists: Vec<Vec<Sig>> = sequences(menu.len(), 2).into_iter().map(|l| l.into_iter().map(|i| menu[i].clone()).collect()).collect();
        let cols = ["A", "B", "Q", "A_out", "Q_out", "V"];
        let headers: Vec<Vec<String>> = ordered_selections(cols.len(), 3).into_iter().filter(|h| !h.is_empty()).map(|h| h.into_iter().map(|i| cols[i].to_string()).collect()).collect();
        let progs: Vec<Vec<(String, Vec<Stmt>)>> = (0..=3).map(|w| if w == 0 { vec![] } else { c11::programs(w) }).collect();
        let units: Vec<(usize, usize)> = headers.iter().enumerate().flat_map(|(hi, h)| (0..progs[h.len()].len()).map(move |pi| (hi, pi))).collect();
        let st = par_range("T7: C11 program menu x headers x signal lists of length <= 2: every pair the subject accepts is iterated (answers 1 and Z)", units.len() as u64, &deadline, |u, st| {
            let (hi, pi) = units[u as usize];
            let prog = Program { header: headers[hi].clone(), body: progs[headers[hi].len()][pi].1.clone() };
            let text = text(&prog);
            let Ok(Ok(parsed)) = parse(&text, DEFAULT_BUDGET) else { return };
            for (li, sg) in lists.iter().enumerate() {
                let real = sg.iter().map(|s| s.to_real()).collect();
                let p2 = parsed.clone();
                let Ok(Ok(tc)) = guard(DEFAULT_BUDGET, move || p2.with_signals(real)) else { continue };
                for v in [V::Num(1), V::Z] {
                    st.evals += 1;
                    st.nontrivial += 1;
                    let ans: Answer = sg.iter().filter(|s| s.is_out()).map(|s| (s.name.clone(), v)).collect();
                    let script = vec![Step::Ans(ans)];
                    let mut opts = RunOpts::new(12);
                    opts.repeat_last = true;
                    opts.collect_vars = true;
                    let obs = run_loaded(&tc, sg, true, &script, &opts);
                    st.witness("accepted_pair_iterated");
                    let bad = match &obs.init {
                        ObsInit::Panic(s) => Some(s.clone()),
                        _ => obs.items.iter().find_map(|i| if let ObsItem::Panic(s) = i { Some(s.clone()) } else { None }).or(obs.vars_panic.clone()),
                    };
                    if let Some(s) = bad {
                        let summary = format!("T7: accepted by with_signals, panics when run\nsignals: {}\nprogram:\n{text}{s}", sg.iter().map(|s| s.show()).collect::<Vec<_>>().join(", "));
                        st.violation(&format!("accepted test panics {}", panic_site(&s)), (6 << 40) + (u << 12) + li as u64, summary, || dyn_replay(&text, sg, true, &script, &opts, vec!["rows / error items / end".into()], &obs, &s));
                    }
                }
            }
        });
        total.merge(st);
    }
    total.sample(|| json!({"T1_example": "A O D D_out / ( p / q ) ( p / q ) ( p / q ) ( p / q ) with p = MIN, q = -1 on 63-bit signals", "oracle": "never panics (construction, next, vars, static iteration); error item exactly where the reference predicts division by zero, unassigned variable, empty random range, unimplemented function, Z/X read; rows otherwise"}));
    let mut required: Vec<&'static str> = POSITIONS.to_vec();
    required.extend(["division_or_remainder_by_zero", "variable_never_assigned_on_the_executed_path", "read_of_Z_or_X", "empty_random_range", "function_not_implemented", "signal_width_63_or_64", "driver_error_at_a_call", "layout_omits_a_read_output", "driver_returns_Z_or_X", "bits_64", "static_iteration_exercised", "accepted_pair_iterated", "history_of_rows", "caller_carries_on_after_an_error_item", "accepted_text_beyond_the_small_scope_iterated", "sixty_four_and_more_x_inputs"]);
    let meta = CheckMeta {
        id: "C10",
        tier,
        seed,
        rule: "T1-T5: one dangerous expression ({/ % + - * << >> unary-} over all pairs of 19 boundary operands, random with bounds -1..3, signExt, unassigned variables, runaway counters, bits(0)/bits(64)) placed in every expression position (row entry, bits argument, let, loop bound, repeat bound, while condition, declaration, ite branch) for signal widths {1,2,63,64}, under drivers that return Z/X, omit a read output, or fail at each call index; T6: every program up to K statements of the C01/C18 alphabet under 7 hostile constant answers; T7: every (program, signal list) pair of the C11 menu that with_signals accepts; T8: every sequence of 2 (thorough 3) rows over {0,1,X,C}^3 x {X,2} with two clock columns; each case is distinct by construction; non-trivial = the test was accepted and run".into(),
        assumptions: vec![
            "oracle: no panic from from_str/with_signals/try_iter/next/vars/try_iter_static; item kinds (row / error item / driver error / end) as the reference interpreter predicts; values are C08's".into(),
            "each run is observed for at most 8 next() calls (loops with huge bounds are lazy); T8 runs to the end (at most 40)".into(),
        ],
        required_witnesses: required,
        exhaustive_note: "all listed combinations".into(),
        e1: false,
    };
    total.merge(crate::props::c13::api_use_part(&deadline));
    total.merge(crate::props::c14::cloned_signal_list_part(&deadline));
    finish(meta, total, started)
}
