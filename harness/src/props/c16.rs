//! C16 — loading a .dig file is total and recovers the circuit interface and its tests
//! (DESIGN §6/C16).

use crate::digxml::{self, Pin, PinKind, TestDesc};
use crate::engine::*;
use crate::model::*;
use crate::refgrammar;
use crate::subject::*;
use digital_test_runner as dtr;
use serde_json::json;
use std::str::FromStr;
use std::time::Instant;

fn pin_menu() -> Vec<Pin> {
    let mut b = Pin::new(PinKind::In, "B").bits("4").default(digxml::Default::Value(5));
    b.bits_first = true;
    vec![
        Pin::new(PinKind::In, "A"),
        b,
        Pin::new(PinKind::In, "E").default(digxml::Default::Z),
        Pin::new(PinKind::In, "EZ").default(digxml::Default::Z),
        Pin::new(PinKind::Clock, "EZ3").bits("3").default(digxml::Default::Z),
        Pin::new(PinKind::Clock, "CLK"),
        Pin::new(PinKind::In, "C").bits("2"),
        Pin::new(PinKind::Out, "Q"),
        Pin::new(PinKind::Out, "R").bits("8"),
        Pin::new(PinKind::Out, "C_out").bits("2"),
        Pin::new(PinKind::Out, "A_out"),
        Pin { kind: PinKind::In, label: None, bits: Some("3".into()), default: digxml::Default::None, bits_first: false },
        Pin::new(PinKind::In, "N").bits("x"),
        // labels spelled like the attribute keys the loader looks up
        Pin::new(PinKind::In, "Bits").bits("3"),
        Pin::new(PinKind::In, "InDefault").default(digxml::Default::Value(-7)),
        Pin::new(PinKind::Out, "Label").bits("2"),
        // an input pin whose own label ends in _out
        Pin::new(PinKind::In, "B_out").bits("4").default(digxml::Default::Value(i64::MIN)),
        // a label with a no-break space inside (one name for the header lexer)
        Pin::new(PinKind::In, "D\u{a0}0").bits("2"),
    ]
}

fn test_menu() -> Vec<TestDesc> {
    let t = |l: Option<&str>, s: &str| TestDesc { label: l.map(|x| x.to_string()), source: s.to_string(), extra: vec![] };
    vec![
        t(Some("t"), "A Q\n0 1\n"),
        t(Some("u"), "A Q\n1 0\n(1<2) (3>2)\n"),
        t(Some("t"), "A A_out Q\n0 1 1\n"),
        t(None, "C C_out\n0 1\n"),
        t(Some("v"), "Q_out\n1\n"),
        t(Some("w"), "A Z9_out\n0 1\n"),
        t(Some("x"), "A B_out\n0 1\nC 3\n"),
        t(Some("bad"), "A Q\nlet ;\n"),
        // the same label again, on a test that loads: the name still selects the first one (an error)
        t(Some("bad"), "A Q\n1 1\n"),
        t(Some("Testdata"), "A\n1\n"),
        t(Some("a&b"), "A Q\n0 1 # say \"hi\" & <bye>\n"),
        t(Some("crlf"), "\r\nA Q\r\n0 1\r\n"),
        t(Some(""), "A\n0\n"),
        t(Some("e"), ""),
        t(Some("hdr"), "A Q"),
        t(Some("Label"), "Bits InDefault Label\n1 2 3\n"),
        t(Some("nbsp"), "D\u{a0}0\u{2003}x A\n1 0\n"),
        // the read-back column of an input that is itself called <x>_out
        t(Some("y"), "B_out_out A\n1 0\n"),
        // outputs read by the program that are no column of the test
        t(Some("rd"), "A\n(Q + R)\nlet k = Q;\n(k)\n"),
        // further attribute entries, as Digital writes them: every Testcase element is a test
        TestDesc { label: Some("off".into()), source: "A B_out\n1 0\n".into(), extra: vec![("enabled", "<boolean>false</boolean>")] },
        TestDesc { label: Some("T".into()), source: "A Q\n1 1\n".into(), extra: vec![("enabled", "<boolean>true</boolean>"), ("Description", "<string>Label</string>"), ("rotation", "<rotation rotation=\"1\"/>")] },
    ]
}

#[derive(Clone, Debug, PartialEq, Eq, PartialOrd, Ord)]
struct RSig {
    name: String,
    bits: usize,
    kind: String,
}

fn rsig_of(s: &dtr::Signal) -> RSig {
    RSig {
        name: s.name.clone(),
        bits: s.bits,
        kind: match &s.typ {
            dtr::SignalType::Input { default } => format!("In({})", V::from(*default).show()),
            dtr::SignalType::Output => "Out".into(),
            dtr::SignalType::Bidirectional { default } => format!("Bidir({})", V::from(*default).show()),
            dtr::SignalType::Virtual { .. } => "Virtual".into(),
        },
    }
}

/// Reference description of what loading must give: Err(reason) if the document is not
/// loadable, else the signals (as a sorted multiset) and the tests.
fn reference(pins: &[Pin], tests: &[TestDesc]) -> Result<Vec<RSig>, String> {
    let mut sigs: Vec<(RSig, bool)> = vec![]; // (signal, is input)
    for p in pins {
        let Some(label) = &p.label else { continue };
        let bits = p.bits.as_ref().and_then(|b| b.parse::<usize>().ok()).unwrap_or(1);
        let is_in = p.kind != PinKind::Out;
        let def = match p.default {
            digxml::Default::None => "0".to_string(),
            digxml::Default::Value(v) => format!("{v}"),
            digxml::Default::Z => "Z".to_string(),
        };
        sigs.push((RSig { name: label.clone(), bits, kind: if is_in { format!("In({def})") } else { "Out".into() } }, is_in));
    }
    for t in tests {
        let (names, _) = refgrammar::header(&t.source).map_err(|e| format!("test {:?}: {e}", t.label))?;
        for h in names {
            if sigs.iter().any(|(s, _)| s.name == h) {
                continue;
            }
            let Some(stem) = h.strip_suffix("_out") else { return Err(format!("header column {h} is not a pin")) };
            // <stem>_out marks the input <stem> as bidirectional
            let Some((s, _)) = sigs.iter_mut().find(|(s, is_in)| s.name == stem && *is_in) else { return Err(format!("header column {h}: no input pin {stem}")) };
            if let Some(d) = s.kind.strip_prefix("In(") {
                s.kind = format!("Bidir({d}");
            }
        }
    }
    let mut v: Vec<RSig> = sigs.into_iter().map(|x| x.0).collect();
    v.sort();
    Ok(v)
}

fn load_class(r: &Result<dtr::TestCase, dtr::errors::LoadTestError>) -> String {
    match r {
        Ok(_) => "ok".into(),
        Err(dtr::errors::LoadTestError::IndexOutOfBounds { .. }) => "index out of bounds".into(),
        Err(dtr::errors::LoadTestError::TestNotFound(_)) => "test not found".into(),
        Err(dtr::errors::LoadTestError::ParseError(_)) => "parse error".into(),
        Err(dtr::errors::LoadTestError::SignalError(_)) => "signal error".into(),
    }
}

/// Check one generated document; returns (class, description) of a violation.
fn check_doc(pins: &[Pin], tests: &[TestDesc], st: &mut Stats) -> Option<(String, String)> {
    // the elements of a document come in any order: pins first (as a rule), and for every third
    // document also tests first and tests right after the first pin
    let r = check_doc_in_order(pins, tests, st);
    if r.is_some() || hash64(&(pins, tests)) % 3 != 0 {
        return r;
    }
    for order in [1, 2] {
        digxml::set_element_order(order);
        let r = check_doc_in_order(pins, tests, st);
        st.witness("tests_in_front_of_pins_in_the_document");
        if r.is_none() {
            digxml::set_element_order(0);
        }
        // (on a violation the order stays set: the caller renders the document for the replay file and resets it)
        if let Some((class, desc)) = r {
            return Some((class, format!("{desc}\n(document order: {})", if order == 1 { "the Testcase elements stand in front of the pins" } else { "the Testcase elements stand behind the first pin, the other pins behind them" })));
        }
    }
    None
}

fn check_doc_in_order(pins: &[Pin], tests: &[TestDesc], st: &mut Stats) -> Option<(String, String)> {
    let doc = digxml::render(pins, tests);
    let want = reference(pins, tests);
    let d2 = doc.clone();
    let got = match guard(DEFAULT_BUDGET, move || dtr::dig::File::parse(&d2)) {
        Ok(g) => g,
        Err(c) => return Some((format!("File::parse panics {}", crate::props::util::panic_site(&format!("{c:?}"))), format!("File::parse panicked: {c:?}"))),
    };
    match (&want, &got) {
        (Err(_), Err(_)) => {
            st.witness("unloadable_document_rejected");
            None
        }
        (Err(why), Ok(f)) => Some(("unloadable document accepted".into(), format!("reference: not loadable ({why}); File::parse returned Ok with {} signals and {} tests", f.signals.len(), f.test_cases.len()))),
        (Ok(_), Err(e)) => Some(("loadable document rejected".into(), format!("reference: loadable; File::parse returned Err({})", miette_chain(e)))),
        (Ok(wsigs), Ok(f)) => {
            st.witness("loadable_document");
            let mut gsigs: Vec<RSig> = f.signals.iter().map(rsig_of).collect();
            gsigs.sort();
            if &gsigs != wsigs {
                let bad = gsigs.iter().find(|g| !wsigs.contains(g)).map(|g| format!("{g:?}")).unwrap_or_else(|| format!("missing {:?}", wsigs.iter().find(|w| !gsigs.contains(w))));
                return Some(("signals differ".into(), format!("signals: expected {wsigs:?}\n got {gsigs:?}\n first difference: {bad}")));
            }
            if wsigs.iter().any(|s| s.kind.starts_with("Bidir")) {
                st.witness("bidirectional_signal_recovered");
            }
            // tests verbatim, in document order
            if f.test_cases.len() != tests.len() {
                return Some(("tests dropped or added".into(), format!("the document has {} Testcase elements, the file {} tests: {:?}", tests.len(), f.test_cases.len(), f.test_cases.iter().map(|t| &t.name).collect::<Vec<_>>())));
            }
            for (i, (t, g)) in tests.iter().zip(&f.test_cases).enumerate() {
                if let Some(l) = &t.label {
                    if &g.name != l {
                        return Some(("test label differs".into(), format!("test {i}: label {l:?} became {:?}", g.name)));
                    }
                }
                if g.source != t.source {
                    return Some(("test source differs".into(), format!("test {i}: source {:?} became {:?}", t.source, g.source)));
                }
            }
            // load_test(i) == parse source i + bind to the file's signals
            for (i, t) in tests.iter().enumerate() {
                let f2 = f.clone();
                let src = t.source.clone();
                let sigs = f.signals.clone();
                // loading is repeatable: the same file object gives the same test again, also after
                // other tests have been loaded from it
                {
                    let f6 = f.clone();
                    let n = tests.len();
                    match guard(DEFAULT_BUDGET, move || {
                        let first = f6.load_test(i).map_err(|e| format!("{e}"));
                        for j in 0..n {
                            let _ = f6.load_test((i + j + 1) % n);
                        }
                        let again = f6.load_test(i).map_err(|e| format!("{e}"));
                        first == again
                    }) {
                        Ok(true) => st.witness("test_loaded_twice_from_one_file_object"),
                        Ok(false) => return Some(("load_test is not repeatable".into(), format!("load_test({i}) gives a different result the second time (after the other tests were loaded from the same file object)"))),
                        Err(c) => return Some(("load_test panics".into(), format!("load_test({i}) panicked: {c:?}"))),
                    }
                }
                let r = guard(DEFAULT_BUDGET, move || {
                    let a = f2.load_test(i);
                    let b: Result<dtr::TestCase, String> = match dtr::ParsedTestCase::from_str(&src) {
                        Err(_) => Err("parse error".into()),
                        Ok(p) => p.with_signals(sigs).map_err(|_| "signal error".to_string()),
                    };
                    (a, b)
                });
                match r {
                    Err(c) => return Some(("load_test panics".into(), format!("load_test({i}) panicked: {c:?}"))),
                    Ok((a, b)) => {
                        let same = match (&a, &b) {
                            (Ok(x), Ok(y)) => x == y,
                            (Err(_), Err(e)) => &load_class(&a) == e,
                            _ => false,
                        };
                        if !same {
                            return Some(("load_test differs from parse + bind".into(), format!("load_test({i}) gives {}, parsing the source and binding it to the file's signals gives {}", load_class(&a), b.as_ref().map(|_| "ok").unwrap_or_else(|e| e))));
                        }
                        st.witness(if a.is_ok() { "load_test_ok" } else { "load_test_err_same_class" });
                        // by name: the first test with that label
                        if let Some(l) = &t.label {
                            let first = tests.iter().position(|x| x.label.as_ref() == Some(l)).unwrap();
                            let f3 = f.clone();
                            let l2 = l.clone();
                            let r = guard(DEFAULT_BUDGET, move || (f3.load_test_by_name(&l2), f3.load_test(first)));
                            match r {
                                Err(c) => return Some(("load_test_by_name panics".into(), format!("{c:?}"))),
                                Ok((x, y)) => {
                                    let same = match (&x, &y) {
                                        (Ok(x), Ok(y)) => x == y,
                                        (Err(_), Err(_)) => load_class(&x) == load_class(&y),
                                        _ => false,
                                    };
                                    if !same {
                                        return Some(("load_test_by_name does not select the first test with that label".into(), format!("label {l:?}: by name {}, load_test({first}) {}", load_class(&x), load_class(&y))));
                                    }
                                    if first != i {
                                        st.witness("duplicate_test_label");
                                    }
                                }
                            }
                        }
                    }
                }
            }
            let f4 = f.clone();
            let n = tests.len();
            match guard(DEFAULT_BUDGET, move || (load_class(&f4.load_test(n)), load_class(&f4.load_test(n + 7)), load_class(&f4.load_test_by_name("no such test")))) {
                Ok((a, b, c)) if a == "index out of bounds" && b == "index out of bounds" && c == "test not found" => {}
                other => return Some(("out-of-range index / unknown name".into(), format!("load_test({n}), load_test({}), load_test_by_name(unknown) gave {other:?}", n + 7))),
            }
            // names that are nearly labels (other letter case, blank space around, a prefix, an extension):
            // a name selects the first test whose label is exactly that name, and nothing else
            let labels: Vec<Option<String>> = tests.iter().map(|t| t.label.clone()).collect();
            // (names that look like indices are names: "0" is not the first test)
            let mut near: Vec<String> = vec!["  ".into(), "\t".into(), "T".into(), "t ".into(), "0".into(), "1".into(), "2".into(), "+1".into(), "007".into(), "-0".into(), "0x1".into()];
            for l in labels.iter().flatten() {
                near.extend([l.to_uppercase(), l.to_lowercase(), format!(" {l}"), format!("{l} "), format!("\t{l}\n"), format!("{l}x"), l.chars().skip(1).collect()]);
            }
            near.sort();
            near.dedup();
            for name in near {
                let want = labels.iter().position(|l| l.as_deref() == Some(name.as_str()));
                let f5 = f.clone();
                let nm = name.clone();
                let got = guard(DEFAULT_BUDGET, move || (f5.load_test_by_name(&nm), want.map(|i| f5.load_test(i))));
                st.witness("lookup_by_a_name_that_is_nearly_a_label");
                match got {
                    Err(c) => return Some(("load_test_by_name panics".into(), format!("{c:?}"))),
                    Ok((x, None)) => {
                        if load_class(&x) != "test not found" {
                            return Some(("unknown name is not an error".into(), format!("no test is labelled {name:?} (labels: {labels:?}) but load_test_by_name gives {}", load_class(&x))));
                        }
                    }
                    Ok((x, Some(y))) => {
                        let same = match (&x, &y) {
                            (Ok(x), Ok(y)) => x == y,
                            (Err(_), Err(_)) => load_class(&x) == load_class(&y),
                            _ => false,
                        };
                        if !same {
                            return Some(("load_test_by_name does not select the first test with that label".into(), format!("name {name:?}: by name {}, by index {}", load_class(&x), load_class(&y))));
                        }
                    }
                }
            }
            None
        }
    }
}

/// The three ways into the loader - `File::parse`, `str::parse::<File>()` and `File::open` on a file
/// holding the same bytes - give the same file (signals, tests with labels and sources) or all give an
/// error with the same message.
fn entry_points(doc: &str) -> Option<String> {
    fn show(r: Result<dtr::dig::File, dtr::errors::DigFileError>) -> String {
        match r {
            Ok(f) => format!("Ok signals={:?} tests={:?}", f.signals, f.test_cases.iter().map(|t| (&t.name, &t.source)).collect::<Vec<_>>()),
            // the wording may list names in the arbitrary order of a hash set: compared as a bag of words
            Err(e) => {
                let m = format!("{e}");
                let mut w: Vec<&str> = m.split([' ', ',']).filter(|x| !x.is_empty()).collect();
                w.sort();
                format!("Err {}", w.join(" "))
            }
        }
    }
    let d = doc.to_string();
    let r = guard(DEFAULT_BUDGET, move || {
        let a = show(dtr::dig::File::parse(&d));
        let b = show(d.parse::<dtr::dig::File>());
        let dir = std::env::temp_dir().join(format!("dtr-verif-open-{}", std::process::id()));
        let _ = std::fs::create_dir_all(&dir);
        let path = dir.join(format!("{:?}.dig", std::thread::current().id()).replace(['(', ')'], "_"));
        let c = if std::fs::write(&path, d.as_bytes()).is_ok() {
            let c = show(dtr::dig::File::open(&path));
            let _ = std::fs::remove_file(&path);
            c
        } else {
            a.clone() // no scratch file could be written: nothing to compare (counted by the witness below)
        };
        (a, b, c)
    });
    match r {
        Err(c) => Some(format!("an entry point of the loader panics: {c:?}")),
        Ok((a, b, c)) => {
            if a != b {
                Some(format!("File::parse gives {}\nstr::parse::<File>() gives {}", &a[..a.len().min(400)], &b[..b.len().min(400)]))
            } else if a != c {
                let pos = a.bytes().zip(c.bytes()).position(|(x, y)| x != y).unwrap_or(a.len().min(c.len()));
                let lo = (0..=pos.saturating_sub(60)).rev().find(|i| a.is_char_boundary(*i) && c.is_char_boundary(*i)).unwrap_or(0);
                Some(format!("File::parse and File::open (same bytes in a file) differ from byte {pos} of their description:\n parse: {}\n open:  {}", a[lo..].chars().take(200).collect::<String>(), c[lo..].chars().take(200).collect::<String>()))
            } else {
                None
            }
        }
    }
}

pub fn replay_entry_points(j: &serde_json::Value) -> Vec<String> {
    let r = vec![entry_points(j["document"].as_str().unwrap_or("")).unwrap_or_else(|| "File::parse, FromStr and File::open agree".into())];
    remove_scratch_dir();
    r
}

pub fn remove_scratch_dir() {
    let _ = std::fs::remove_dir_all(std::env::temp_dir().join(format!("dtr-verif-open-{}", std::process::id())));
}

fn base_documents() -> Vec<(String, String)> {
    let mut v = vec![];
    for f in ["Counter.dig", "74779.dig", "adder.dig", "74162.dig"] {
        if let Ok(s) = std::fs::read_to_string(format!("/repo/tests/data/{f}")) {
            v.push((format!("fixture {f}"), s));
        }
    }
    let pm = pin_menu();
    let tm = test_menu();
    v.push(("generated: A B CLK Q R, tests t u".into(), digxml::render(&[pm[0].clone(), pm[1].clone(), pm[3].clone(), pm[5].clone(), pm[6].clone()], &[tm[0].clone(), tm[1].clone()])));
    let umlaut = vec![Pin::new(PinKind::In, "Zähler").bits("4"), Pin::new(PinKind::Out, "Übertrag"), Pin::new(PinKind::In, "€")];
    let t = TestDesc { label: Some("prüfe €".into()), source: "Zähler Übertrag\n1 0 # größer\n".into(), extra: vec![] };
    let doc = digxml::render(&umlaut, &[t]);
    v.push(("generated: non-ASCII labels, LF".into(), doc.clone()));
    v.push(("generated: non-ASCII labels, CRLF".into(), doc.replace('\n', "\r\n")));
    v
}

pub fn run(tier: Tier, seed: u64) -> i32 {
    let started = Instant::now();
    let deadline = Deadline::new(tier.wall_cap());
    let pm = pin_menu();
    let tm = test_menu();
    let pin_lists = sequences(pm.len(), tier.pick(3, 4));
    let test_lists = sequences(tm.len(), tier.pick(2, 2));
    let mut total = Stats::default();
    let label = format!("circuit descriptions: {} pin lists (sequences of <= {} of {} menu pins) x {} test lists (sequences of <= 2 of {} menu tests), rendered as .dig XML", pin_lists.len(), tier.pick(3, 4), pm.len(), test_lists.len(), tm.len());
    let st = par_range(&label, pin_lists.len() as u64, &deadline, |pi, st| {
        let pins: Vec<Pin> = pin_lists[pi as usize].iter().map(|&i| pm[i].clone()).collect();
        for (ti, tl) in test_lists.iter().enumerate() {
            let tests: Vec<TestDesc> = tl.iter().map(|&i| tm[i].clone()).collect();
            st.evals += 1;
            if !pins.is_empty() && !tests.is_empty() {
                st.nontrivial += 1;
            }
            if pi % 100 == 37 && ti == 17 {
                st.sample(|| json!({"pins": pins.iter().map(|p| p.show()).collect::<Vec<_>>(), "tests": tests.iter().map(|t| format!("{:?}: {:?}", t.label, t.source)).collect::<Vec<_>>(), "reference": format!("{:?}", reference(&pins, &tests))}));
            }
            if (pi * 31 + ti as u64) % 16 == 0 {
                let doc = digxml::render(&pins, &tests);
                st.witness("entry_points_compared");
                if let Some(d) = entry_points(&doc) {
                    st.violation("File::open / FromStr differ from File::parse", 1 << 59 | pi << 12 | ti as u64, format!("pins: {:?}\ntests: {:?}\n{d}", pins.iter().map(|p| p.show()).collect::<Vec<_>>(), tests.iter().map(|t| format!("{:?}: {:?}", t.label, t.source)).collect::<Vec<_>>()), || json!({"kind": "entry_points", "document": doc, "expected": ["File::parse, FromStr and File::open agree"], "observed": [d.clone()]}));
                }
            }
            if let Some((class, desc)) = check_doc(&pins, &tests, st) {
                let doc = digxml::render(&pins, &tests);
                digxml::set_element_order(0);
                let summary = format!("pins: {:?}\ntests: {:?}\n{desc}", pins.iter().map(|p| p.show()).collect::<Vec<_>>(), tests.iter().map(|t| format!("{:?}: {:?}", t.label, t.source)).collect::<Vec<_>>());
                st.violation(&class, (pins.len() as u64) << 40 | (tests.len() as u64) << 36 | pi << 12 | ti as u64, summary, || json!({"kind": "dig", "document": doc, "expected": [format!("{:?}", reference(&pins, &tests))], "observed": [describe_doc(&doc)]}));
            }
        }
    });
    total.merge(st);

    // far beyond the enumerated scope: 300 pins and 40 tests in one document
    {
        let mut pins = vec![];
        for i in 0..300 {
            pins.push(match i % 4 {
                0 => Pin::new(PinKind::In, &format!("I{i}")).bits(&format!("{}", i % 64 + 1)).default(digxml::Default::Value(i as i64)),
                1 => Pin::new(PinKind::Out, &format!("O{i}")).bits("8"),
                2 => Pin::new(PinKind::Clock, &format!("K{i}")),
                _ => Pin::new(PinKind::In, &format!("Z{i}")).default(digxml::Default::Z),
            });
        }
        let tests: Vec<TestDesc> = (0..40).map(|t| TestDesc { label: Some(format!("test {}", t % 37)), source: format!("I{} I{}_out O{} K{}\n{} X 1 C\n", t * 4, t * 4, t * 4 + 1, t * 4 + 2, t), extra: vec![] }).collect();
        total.evals += 1;
        total.nontrivial += 1;
        total.witness("document_with_300_pins_and_40_tests");
        if let Some((class, desc)) = check_doc(&pins, &tests, &mut total) {
            let doc = digxml::render(&pins, &tests);
            digxml::set_element_order(0);
            total.violation(&format!("large scale: {class}"), 1 << 61, format!("300 pins, 40 tests\n{desc}"), || json!({"kind": "dig", "document": doc, "expected": ["as described"], "observed": [describe_doc(&doc)]}));
        }
    }
    // corruptions: loading never panics
    let bases = base_documents();
    for (bi, (bname, doc)) in bases.iter().enumerate() {
        let small = doc.len() < 8000;
        let lines: Vec<&str> = doc.split_inclusive('\n').collect();
        // corruption kinds: truncation at every char boundary; delete/duplicate each line;
        // for small documents also every single-character deletion
        let cuts: Vec<usize> = (0..=doc.len()).filter(|i| doc.is_char_boundary(*i)).collect();
        let n = cuts.len() as u64 + 2 * lines.len() as u64 + if small { cuts.len() as u64 } else { 0 } + 4 * lines.len() as u64;
        let label = format!("corruptions of base document {bi} ({bname}, {} bytes): every truncation, deletion/duplication of each line, each tag renamed, each attribute value emptied, each line's '>' or '<' dropped{}", doc.len(), if small { ", every single-character deletion" } else { "" });
        let st = par_range(&label, n, &deadline, |i, st| {
            let i = i as usize;
            let c: String;
            if i < cuts.len() {
                c = doc[..cuts[i]].to_string();
            } else if i < cuts.len() + lines.len() {
                let k = i - cuts.len();
                c = lines.iter().enumerate().filter(|(j, _)| *j != k).map(|(_, l)| *l).collect();
            } else if i < cuts.len() + 2 * lines.len() {
                let k = i - cuts.len() - lines.len();
                c = lines.iter().enumerate().flat_map(|(j, l)| if j == k { vec![*l, *l] } else { vec![*l] }).collect();
            } else if i < cuts.len() + 6 * lines.len() {
                let j = i - cuts.len() - 2 * lines.len();
                let (k, kind) = (j / 4, j % 4);
                let l = lines[k];
                let nl = match kind {
                    0 => {
                        // rename the first tag on the line
                        match (l.find('<'), l.find('>')) {
                            (Some(a), Some(b)) if a < b && !l[a + 1..b].starts_with('?') => format!("{}<zz{}", &l[..a], &l[b..]),
                            _ => return,
                        }
                    }
                    1 => {
                        // empty the first attribute value
                        match l.find("=\"") {
                            Some(a) => match l[a + 2..].find('"') {
                                Some(b) => format!("{}=\"{}", &l[..a], &l[a + 2 + b..]),
                                None => return,
                            },
                            None => return,
                        }
                    }
                    2 => match l.rfind('>') {
                        Some(a) => format!("{}{}", &l[..a], &l[a + 1..]),
                        None => return,
                    },
                    _ => match l.find('<') {
                        Some(a) => format!("{}{}", &l[..a], &l[a + 1..]),
                        None => return,
                    },
                };
                c = lines.iter().enumerate().map(|(j, l)| if j == k { nl.as_str() } else { *l }).collect();
            } else {
                let k = i - cuts.len() - 6 * lines.len();
                if k + 1 >= cuts.len() {
                    return;
                }
                c = format!("{}{}", &doc[..cuts[k]], &doc[cuts[k + 1]..]);
            }
            st.evals += 1;
            st.nontrivial += 1;
            if i % 10 == 0 {
                st.witness("entry_points_compared_on_corrupted_documents");
                if let Some(d) = entry_points(&c) {
                    st.violation("File::open / FromStr differ from File::parse", (1 << 58) + ((bi as u64) << 32) + i as u64, format!("base document: {bname}\ncorruption index {i}\n{d}"), || json!({"kind": "entry_points", "document": c, "expected": ["File::parse, FromStr and File::open agree"], "observed": [d.clone()]}));
                    return;
                }
            }
            let c2 = c.clone();
            match guard(DEFAULT_BUDGET, move || dtr::dig::File::parse(&c2).map(|f| f.test_cases.len()).map_err(|e| miette_chain(&e))) {
                Ok(Ok(_)) => st.witness("corrupted_document_still_loads"),
                Ok(Err(_)) => st.witness("corrupted_document_rejected"),
                Err(caught) => {
                    let d = format!("{caught:?}");
                    st.violation(&format!("File::parse panics on a corrupted document {}", crate::props::util::panic_site(&d)), (1 << 60) + ((bi as u64) << 32) + i as u64, format!("base document: {bname}\ncorruption index {i}\n{d}"), || json!({"kind": "dig", "document": c, "expected": ["a file or an error"], "observed": [describe_doc(&c)]}));
                }
            }
        });
        total.merge(st);
    }

    let meta = CheckMeta {
        id: "C16",
        tier,
        seed,
        rule: "every sequence of pins x every sequence of tests from the menus, rendered as .dig XML (each pair once); non-trivial = at least one pin and one test; plus every listed single corruption of 7 base documents (4 repository fixtures, 3 generated incl. non-ASCII labels with LF and CRLF)".into(),
        assumptions: vec![
            "the generating description is the oracle; a document is loadable iff every test header parses, every header column is a pin label or <input>_out with no pin of that name; signals are compared as a multiset (their order is not specified by the property)".into(),
            "the name given to a Testcase without Label entry is not specified".into(),
            "dig::File::open is compared with parse on every sixteenth generated document and every tenth corruption, through a scratch file in the system's temporary directory (removed at once); file-system faults are not explored".into(),
        ],
        required_witnesses: vec!["document_with_300_pins_and_40_tests", "loadable_document", "unloadable_document_rejected", "bidirectional_signal_recovered", "load_test_ok", "load_test_err_same_class", "duplicate_test_label", "corrupted_document_still_loads", "corrupted_document_rejected", "lookup_by_a_name_that_is_nearly_a_label", "test_loaded_twice_from_one_file_object", "tests_in_front_of_pins_in_the_document", "entry_points_compared", "entry_points_compared_on_corrupted_documents"],
        exhaustive_note: "all menu sequences within the bounds; all listed corruptions".into(),
        e1: false,
    };
    remove_scratch_dir();
    finish(meta, total, started)
}

pub fn describe_doc(doc: &str) -> String {
    let d = doc.to_string();
    match guard(DEFAULT_BUDGET, move || dtr::dig::File::parse(&d)) {
        Err(c) => format!("{c:?}"),
        Ok(Err(e)) => format!("Err({})", miette_chain(&e)),
        Ok(Ok(f)) => format!("Ok: signals {:?}; tests {:?}", f.signals.iter().map(rsig_of).collect::<Vec<_>>(), f.test_cases.iter().map(|t| (t.name.clone(), t.source.clone())).collect::<Vec<_>>()),
    }
}

pub fn replay_dig(j: &serde_json::Value) -> Vec<String> {
    vec![describe_doc(j["document"].as_str().unwrap_or(""))]
}
