//! C08 — expression semantics: precedence, associativity, 64-bit two's-complement
//! arithmetic, lazy ite, literal radixes (DESIGN §6/C08).

use crate::compare::*;
use crate::driver::*;
use crate::engine::*;
use crate::model::*;
use crate::props::util::*;
use crate::refsem::*;
use crate::subject::*;
use serde_json::json;
use std::time::Instant;

const OPERANDS: [&str; 4] = ["p", "q", "r", "s"];

fn sigs() -> Vec<Sig> {
    vec![Sig::inp("A", 1, 0), Sig::out("p", 64), Sig::out("q", 64), Sig::out("r", 64), Sig::out("s", 64), Sig::out("O", 64)]
}

fn answer(val: &[i64; 4]) -> Answer {
    vec![("p".into(), V::Num(val[0])), ("q".into(), V::Num(val[1])), ("r".into(), V::Num(val[2])), ("s".into(), V::Num(val[3])), ("O".into(), V::Num(0))]
}

fn valuations() -> Vec<[i64; 4]> {
    vec![
        [2, 3, 5, 7],
        [7, 5, 3, 2],
        [-3, 5, -7, 11],
        [13, -2, 3, -5],
        [6, 4, 2, 1],
        [100, 7, 3, 2],
        [-1, -1, 2, 3],
        [0, 1, 2, 3],
        [i64::MAX, 2, 3, 5],
        [i64::MIN, -1, 7, 2],
        [1 << 62, 3, 61, 2],
        [65, 64, 63, -64],
    ]
}

pub fn operand_values() -> Vec<i64> {
    vec![0, 1, 2, 3, 7, -1, -2, -7, 63, 64, 65, 127, 1 << 31, 1 << 32, 1 << 62, i64::MAX, i64::MAX - 1, i64::MIN, i64::MIN + 1]
}

/// Run a batch of expressions (one row each) under one valuation per row and compare the
/// un-truncated results in a virtual column and a 64-bit output column with the reference.
/// `vals[k]` is the valuation in force when row k is evaluated.
fn batch(st: &mut Stats, order: u64, exprs: &[Expr], vals: &[[i64; 4]], what: &str) {
    batch_with(st, order, exprs, vals, what, &[])
}

/// `extra`: further 64-bit outputs (name, constant device value), each with a header column
fn batch_with(st: &mut Stats, order: u64, exprs: &[Expr], vals: &[[i64; 4]], what: &str, extra: &[(String, i64)]) {
    assert_eq!(exprs.len(), vals.len());
    let mut sigs = sigs();
    sigs.extend(extra.iter().map(|(n, _)| Sig::out(n, 64)));
    let answer = |v: &[i64; 4]| -> Answer {
        let mut a = answer(v);
        a.extend(extra.iter().map(|(n, x)| (n.clone(), V::Num(*x))));
        a
    };
    let mut body = vec![Stmt::Declare("V".into(), lit(0))];
    for e in exprs {
        let mut es = vec![Entry::Lit(0, Radix::Dec), Entry::Paren(e.clone()), Entry::Paren(e.clone())];
        es.extend(extra.iter().map(|_| Entry::X));
        body.push(Stmt::Row(es));
    }
    let mut header: Vec<String> = vec!["A".into(), "V".into(), "O".into()];
    header.extend(extra.iter().map(|(n, _)| n.clone()));
    let prog = Program { header, body };
    let text = text(&prog);
    // call k answers the valuation for row k (the constructor is call 0)
    let mut script: Vec<Step> = vals.iter().map(|v| Step::Ans(answer(v))).collect();
    script.push(Step::Ans(answer(&[0; 4])));
    let mut env = ScriptEnv::new(&script);
    let r = crate::refsem::run(&prog, &sigs, &mut env, Fuel { steps: 5000, rows: 2000 });
    assert!(r.end == RefEnd::Done, "C08 harness: batch contains an expression the reference cannot evaluate: {:?} {:?}", r.end, r.items.last());
    let mut opts = RunOpts::new(r.items.len() + 1);
    opts.after_end = 0;
    let obs = run_dynamic(&text, &sigs, true, &script, &opts);
    st.evals += exprs.len() as u64;
    st.steps += obs.items.len() as u64;
    for it in &obs.items {
        if let ObsItem::Row(r) = it {
            st.outcome(&r.outputs.iter().map(|o| o.expected).collect::<Vec<_>>());
        }
    }
    let proj = Proj { input_values: false, expected: true, output: false, checked_kind: true, lines: false, vars: false, verdicts: false };
    if let Some((k, m)) = run_mismatch(&r, &obs, proj, None) {
        let class = classify(&m);
        let e = exprs.get(k).map(expr_text).unwrap_or_default();
        let v = vals.get(k).copied().unwrap_or([0; 4]);
        let want = exprs.get(k).map(|e| eval_pure(e, &|n| OPERANDS.iter().position(|o| *o == n).map(|i| v[i])));
        // a single-row program for the replay
        let single = Program { header: prog.header.clone(), body: vec![prog.body[0].clone(), prog.body.get(k + 1).cloned().unwrap_or(Stmt::ResetRandom)] };
        let stext = crate::model::text(&single);
        let sscript = vec![Step::Ans(answer(&v)), Step::Ans(answer(&[0; 4]))];
        let sopts = RunOpts::new(2);
        let sobs = run_dynamic(&stext, &sigs, true, &sscript, &sopts);
        let mut senv = ScriptEnv::new(&sscript);
        let sr = crate::refsem::run(&single, &sigs, &mut senv, Fuel::default());
        let summary = format!("{what}\nexpression: {e}\nvaluation: p={} q={} r={} s={}\nreference value: {want:?}\nfirst difference at {m}", v[0], v[1], v[2], v[3]);
        st.violation(&format!("{class} [{what}]"), order, summary, || dyn_replay(&stext, &sigs, true, &sscript, &sopts, ref_items_brief(&sr), &sobs, &m));
    }
}

fn unary_prefixes() -> Vec<Vec<UnOp>> {
    use UnOp::*;
    // every prefix of one or two unary operators
    let mut v = vec![vec![Neg], vec![Not], vec![Inv]];
    for a in [Neg, Not, Inv] {
        for b in [Neg, Not, Inv] {
            v.push(vec![a, b]);
        }
    }
    v
}

fn operand(i: usize, prefix: &[UnOp]) -> (Vec<String>, Expr) {
    let mut toks = vec![];
    let mut e = name(OPERANDS[i]);
    for op in prefix.iter().rev() {
        e = un(*op, e);
    }
    for op in prefix {
        toks.push(op.text().to_string());
    }
    toks.push(OPERANDS[i].to_string());
    (toks, e)
}

/// flat chain p o1 q o2 r o3 s with one operand carrying a unary prefix
fn chain(ops: [BinOp; 3], prefixed: Option<(usize, &[UnOp])>) -> Expr {
    chain_with_call(ops, prefixed, None)
}

/// `call`: operand number `call.0` is written as a function call whose value is that operand and
/// whose other arguments hold operators of every tightness (form `call.1`)
fn chain_with_call(ops: [BinOp; 3], prefixed: Option<(usize, &[UnOp])>, call: Option<(usize, usize)>) -> Expr {
    let mut toks = vec![];
    let mut operands = vec![];
    for i in 0..4 {
        let pre: &[UnOp] = match prefixed {
            Some((j, p)) if j == i => p,
            _ => &[],
        };
        let (t, e) = operand(i, pre);
        let (t, e) = match call {
            Some((j, form)) if j == i => {
                let s = |x: &[&str]| x.iter().map(|y| y.to_string()).collect::<Vec<String>>();
                match form {
                    0 => ([s(&["ite", "(", "1", ","]), t, s(&[",", "0", "=", "0", ")"])].concat(), ite(lit(1), e, bin(BinOp::Eq, lit(0), lit(0)))),
                    1 => ([s(&["ite", "(", "0", ",", "1", "|", "1", ","]), t, s(&[")"])].concat(), ite(lit(0), bin(BinOp::Or, lit(1), lit(1)), e)),
                    _ => ([s(&["ite", "(", "2", "*", "3", "<", "7", ","]), t, s(&[",", "1", "<", "2", "+", "1", ")"])].concat(), ite(bin(BinOp::Lt, bin(BinOp::Mul, lit(2), lit(3)), lit(7)), e, bin(BinOp::Lt, lit(1), bin(BinOp::Add, lit(2), lit(1))))),
                }
            }
            _ => (t, e),
        };
        toks.extend(t);
        operands.push(e);
        if i < 3 {
            toks.push(ops[i].text().to_string());
        }
    }
    Expr::Raw(toks, Box::new(climb(operands, ops.to_vec())))
}

/// the five binary tree shapes over four leaves
fn shape(k: usize, o: [BinOp; 3]) -> Expr {
    let l = |i: usize| name(OPERANDS[i]);
    match k {
        0 => bin(o[2], bin(o[1], bin(o[0], l(0), l(1)), l(2)), l(3)),
        1 => bin(o[2], bin(o[0], l(0), bin(o[1], l(1), l(2))), l(3)),
        2 => bin(o[1], bin(o[0], l(0), l(1)), bin(o[2], l(2), l(3))),
        3 => bin(o[0], l(0), bin(o[2], bin(o[1], l(1), l(2)), l(3))),
        _ => bin(o[0], l(0), bin(o[1], l(1), bin(o[2], l(2), l(3)))),
    }
}

fn ok_under(e: &Expr, v: &[i64; 4]) -> bool {
    eval_pure(e, &|n| OPERANDS.iter().position(|o| *o == n).map(|i| v[i])).is_ok()
}

pub fn run(tier: Tier, seed: u64) -> i32 {
    let started = Instant::now();
    let deadline = Deadline::new(tier.wall_cap());
    let vals = valuations();
    let prefixes = unary_prefixes();
    let mut total = Stats::default();
    let triple = |t: u64| [BINOPS[(t % 16) as usize], BINOPS[(t / 16 % 16) as usize], BINOPS[(t / 256) as usize]];

    // part 1a: flat chains, one unit of work = one operator triple x one valuation
    let nvals_pref = vals.len() as u64;
    let st = par_range("1a: chains p o q o r o s over all 16^3 operator triples x (no prefix + 12 unary prefixes x 4 operand positions + 3 function-call forms x 4 positions) x valuations", 4096 * vals.len() as u64, &deadline, |idx, st| {
        let ops = triple(idx % 4096);
        let vi = (idx / 4096) as usize;
        let v = vals[vi];
        let mut exprs = vec![chain(ops, None)];
        // unary-prefixed variants: all valuations in thorough, the first four in quick
        if (vi as u64) < nvals_pref {
            for pos in 0..4 {
                for p in &prefixes {
                    exprs.push(chain(ops, Some((pos, p))));
                }
            }
        }
        // one operand written as a function call (three forms x four positions), first two valuations
        if vi < 2 {
            for pos in 0..4 {
                for form in 0..3 {
                    exprs.push(chain_with_call(ops, None, Some((pos, form))));
                }
            }
            st.witness("operand_written_as_a_function_call");
        }
        exprs.retain(|e| ok_under(e, &v));
        if exprs.is_empty() {
            st.out_of_scope += 1;
            return;
        }
        st.nontrivial += exprs.len() as u64;
        st.witness_n("flat_chain", exprs.len() as u64);
        if exprs.len() > 1 {
            st.witness("unary_prefixed_operand");
        }
        if idx == 1234 {
            let e0 = exprs[0].clone();
            st.sample(|| json!({"part": "1a", "expression_text": expr_text(&e0), "reference_tree": expr_text(&fully_grouped(&e0)), "valuation": v}));
        }
        let vv = vec![v; exprs.len()];
        batch(st, idx, &exprs, &vv, "part 1a: flat operator chain (precedence / associativity / unary binding)");
    });
    total.merge(st);

    // part 1b: explicit trees printed with minimal and with full parentheses
    let st = par_range("1b: 5 tree shapes x 16^3 operator triples x {minimal, full} parentheses x valuations", 4096 * vals.len() as u64, &deadline, |idx, st| {
        let ops = triple(idx % 4096);
        let v = vals[(idx / 4096) as usize];
        let mut exprs = vec![];
        for k in 0..5 {
            let t = shape(k, ops);
            exprs.push(fully_grouped(&t));
            exprs.push(t);
        }
        exprs.retain(|e| ok_under(e, &v));
        if exprs.is_empty() {
            st.out_of_scope += 1;
            return;
        }
        st.nontrivial += exprs.len() as u64;
        st.witness_n("explicit_tree", exprs.len() as u64);
        if idx == 4321 {
            let e0 = exprs[exprs.len() - 1].clone();
            st.sample(|| json!({"part": "1b", "minimal_parentheses": expr_text(&e0), "full_parentheses": expr_text(&fully_grouped(&e0)), "valuation": v}));
        }
        let vv = vec![v; exprs.len()];
        batch(st, (1 << 32) + idx, &exprs, &vv, "part 1b: tree printed with minimal / full parentheses");
    });
    total.merge(st);

    // part 1c (thorough): five operands, four operators, two operands with unary prefixes
    {
        let nv = vals.len() as u64; // all valuations in both tiers (a few seconds)
        let st = par_range("1c: chains of five operands over all 16^4 operator quadruples (plain, and with '-' on the second and '~' on the fourth operand) x all 12 valuations", 65536 * nv, &deadline, |idx, st| {
            let o = idx % 65536;
            let ops = [BINOPS[(o % 16) as usize], BINOPS[(o / 16 % 16) as usize], BINOPS[(o / 256 % 16) as usize], BINOPS[(o / 4096) as usize]];
            let v = vals[(idx / 65536) as usize];
            let mut exprs = vec![];
            for variant in 0..2 {
                let mut toks = vec![];
                let mut operands = vec![];
                for i in 0..5 {
                    let pre: &[UnOp] = if variant == 1 && i == 1 { &[UnOp::Neg] } else if variant == 1 && i == 3 { &[UnOp::Inv] } else { &[] };
                    let (t, e) = operand(i % 4, pre);
                    toks.extend(t);
                    operands.push(e);
                    if i < 4 {
                        toks.push(ops[i].text().to_string());
                    }
                }
                exprs.push(Expr::Raw(toks, Box::new(climb(operands, ops.to_vec()))));
            }
            exprs.retain(|e| ok_under(e, &v));
            if exprs.is_empty() {
                st.out_of_scope += 1;
                return;
            }
            st.nontrivial += exprs.len() as u64;
            st.witness_n("flat_chain_of_five", exprs.len() as u64);
            let vv = vec![v; exprs.len()];
            batch(st, (5 << 32) + idx, &exprs, &vv, "part 1c: five-operand chain");
        });
        total.merge(st);
    }

    // part 2: operator table over the boundary set, operands read from the device
    let ov = operand_values();
    // unary operator strings of length 1..3 (39), applied directly to each other
    let mut unary_strings: Vec<Vec<UnOp>> = vec![];
    for len in 1..=3usize {
        for code in 0..3usize.pow(len as u32) {
            unary_strings.push((0..len).map(|j| UNOPS[(code / 3usize.pow(j as u32)) % 3]).collect());
        }
    }
    let st = par_range("2: 16 binary operators x V^2 and 39 strings of 1..3 unary operators x V (V = 19 boundary operands)", 16 + unary_strings.len() as u64, &deadline, |idx, st| {
        let (expr, pairs): (Expr, Vec<[i64; 4]>) = if idx < 16 {
            let op = BINOPS[idx as usize];
            let e = bin(op, name("p"), name("q"));
            let mut pairs = vec![];
            for a in &ov {
                for b in &ov {
                    pairs.push([*a, *b, 0, 0]);
                }
            }
            (e, pairs)
        } else {
            let mut e = name("p");
            for op in unary_strings[(idx - 16) as usize].iter().rev() {
                e = un(*op, e);
            }
            (e, ov.iter().map(|a| [*a, 0, 0, 0]).collect())
        };
        let pairs: Vec<[i64; 4]> = pairs.into_iter().filter(|v| ok_under(&expr, v)).collect();
        st.nontrivial += pairs.len() as u64;
        st.witness_n("operator_table_entry", pairs.len() as u64);
        if pairs.iter().any(|v| v[0] == i64::MIN && v[1] == -1) {
            st.witness("MIN_op_minus_one");
        }
        if pairs.iter().any(|v| v[1] >= 64 || v[1] < 0) && idx < 16 && matches!(BINOPS[idx as usize], BinOp::Shl | BinOp::Shr) {
            st.witness("shift_count_outside_0_63");
        }
        let exprs = vec![expr; pairs.len()];
        batch(st, (2 << 32) + idx, &exprs, &pairs, "part 2: operator semantics on boundary operands");
    });
    total.merge(st);

    // part 2b: the operator table over a wider operand set: every power of two, its predecessor and its
    // negation, and a fixed list of mixed constants (thorough: also runs of ones), each pair once
    {
        let mut v2: Vec<i64> = operand_values();
        for k in 0..64u32 {
            let p = (1u64 << k) as i64;
            v2.push(p);
            v2.push(p.wrapping_sub(1));
            v2.push(p.wrapping_neg());
        }
        let mut x: u64 = 0x0123_4567_89AB_CDEF;
        for _ in 0..tier.pick(24, 200) {
            v2.push(x as i64);
            x = x.wrapping_mul(6364136223846793005).wrapping_add(1442695040888963407);
        }
        if tier == Tier::Thorough {
            for len in [2u32, 3, 7, 8, 15, 16, 31, 32, 33, 48] {
                for pos in (0..=(64 - len)).step_by(5) {
                    v2.push((((1u64 << len) - 1) << pos) as i64);
                }
            }
        }
        v2.sort();
        v2.dedup();
        let n2 = (v2.len() * v2.len()) as u64;
        let per = 1500u64;
        let chunks = n2.div_ceil(per);
        let st = par_range(&format!("2b: 16 binary operators x W^2 (W = {} operands: powers of two, their predecessors and negations, mixed constants), in blocks of {per} pairs", v2.len()), 16 * chunks, &deadline, |idx, st| {
            let op = BINOPS[(idx / chunks) as usize];
            let c = idx % chunks;
            let e = bin(op, name("p"), name("q"));
            let pairs: Vec<[i64; 4]> = (c * per..((c + 1) * per).min(n2)).map(|i| [v2[(i / v2.len() as u64) as usize], v2[(i % v2.len() as u64) as usize], 0, 0]).filter(|v| ok_under(&e, v)).collect();
            if pairs.is_empty() {
                return;
            }
            st.nontrivial += pairs.len() as u64;
            st.witness_n("wide_operator_table_entry", pairs.len() as u64);
            let exprs = vec![e; pairs.len()];
            batch(st, (6 << 32) + idx, &exprs, &pairs, "part 2b: operator semantics on the wide operand set");
        });
        total.merge(st);
    }

    // far beyond the enumerated scope: a chain of 400 operands, parentheses nested 150 deep, unary runs
    {
        let mut exprs = vec![];
        let mut toks: Vec<String> = vec![];
        let mut operands = vec![];
        let mut ops = vec![];
        for j in 0..400usize {
            let (t, e) = operand(j % 4, if j % 5 == 0 { &[UnOp::Inv] } else { &[] });
            toks.extend(t);
            operands.push(e);
            if j < 399 {
                let op = [BinOp::Add, BinOp::Mul, BinOp::Xor, BinOp::Sub, BinOp::And, BinOp::Or, BinOp::Shl][j % 7];
                let op = if j % 11 == 0 { BinOp::Lt } else { op };
                toks.push(op.text().into());
                ops.push(op);
            }
        }
        exprs.push(Expr::Raw(toks, Box::new(climb(operands, ops))));
        let mut deep = bin(BinOp::Add, name("p"), lit(1));
        for j in 0..150 {
            deep = group(bin(if j % 2 == 0 { BinOp::Mul } else { BinOp::Sub }, deep, name(OPERANDS[j % 4])));
        }
        exprs.push(deep);
        let mut un_run = name("q");
        for j in 0..60 {
            un_run = un(UNOPS[j % 3], un_run);
        }
        exprs.push(un_run);
        // long runs within one precedence level (100 operands, the level's operators in turn, and
        // in turn with a stride of three): left-associative whatever the length
        for level in [vec![BinOp::Add, BinOp::Sub], vec![BinOp::Sub, BinOp::Add], vec![BinOp::Mul, BinOp::Div, BinOp::Rem], vec![BinOp::Shl, BinOp::Shr], vec![BinOp::Lt, BinOp::Ge, BinOp::Gt, BinOp::Le], vec![BinOp::Eq, BinOp::Ne]] {
            for stride in [1usize, 3] {
                for len in [63usize, 64, 65, 100] {
                    let mut toks: Vec<String> = vec![];
                    let mut operands = vec![];
                    let mut ops = vec![];
                    for j in 0..len {
                        let (t, e) = operand(j % 4, &[]);
                        toks.extend(t);
                        operands.push(e);
                        if j + 1 < len {
                            let op = level[(j / stride) % level.len()];
                            toks.push(op.text().into());
                            ops.push(op);
                        }
                    }
                    exprs.push(Expr::Raw(toks, Box::new(climb(operands, ops))));
                }
            }
        }
        let v = vals[2];
        exprs.retain(|e| ok_under(e, &v));
        total.witness_n("very_long_expression", exprs.len() as u64);
        let vv = vec![v; exprs.len()];
        batch(&mut total, 6 << 32, &exprs, &vv, "large scale: very long / deeply nested expressions");
    }

    // far beyond the enumerated scope: 12 000 rows that cannot be evaluated (the failing division sits
    // below 0 / 1 / 40 operators), the caller carries on, then expressions evaluate as ever
    {
        let sigs = sigs();
        let mut deep = bin(BinOp::Div, lit(1), lit(0));
        for j in 0..40 {
            deep = group(bin(if j % 2 == 0 { BinOp::Add } else { BinOp::Mul }, lit(1), deep));
        }
        let fail_rows = vec![
            Stmt::Row(vec![Entry::Lit(0, Radix::Dec), Entry::Paren(bin(BinOp::Div, lit(1), lit(0))), Entry::X]),
            Stmt::Row(vec![Entry::Lit(0, Radix::Dec), Entry::Paren(bin(BinOp::Sub, lit(0), bin(BinOp::Rem, lit(1), lit(0)))), Entry::X]),
            Stmt::Row(vec![Entry::Lit(0, Radix::Dec), Entry::Paren(deep), Entry::X]),
        ];
        let good = Stmt::Row(vec![Entry::Lit(0, Radix::Dec), Entry::Paren(bin(BinOp::Add, lit(1), bin(BinOp::Mul, name("p"), lit(2)))), Entry::Paren(un(UnOp::Neg, group(bin(BinOp::Sub, name("q"), lit(3)))))]);
        let prog = Program { header: vec!["A".into(), "V".into(), "O".into()], body: vec![Stmt::Declare("V".into(), lit(0)), good.clone(), Stmt::Loop("i".into(), lit(4000), fail_rows), good] };
        let text = text(&prog);
        let script = vec![Step::Ans(answer(&[5, 7, 0, 0]))];
        let mut env = ScriptEnv::new(&script);
        env.repeat_last = true;
        let r = crate::refsem::run_opts2(&prog, &sigs, &mut env, Fuel { steps: 200_000, rows: 100 }, false, true);
        assert!(r.end == RefEnd::Done, "C08 harness: {:?}", r.end);
        let mut opts = RunOpts::new(r.items.len() + 1);
        opts.repeat_last = true;
        opts.continue_after_error = true;
        opts.budget = 200_000_000;
        let obs = run_dynamic(&text, &sigs, true, &script, &opts);
        total.evals += 1;
        total.nontrivial += 1;
        total.witness("expression_after_12000_rows_that_could_not_be_evaluated");
        // only the two rows that can be evaluated are compared (what an iterator does after an
        // error item is not laid down; if it yields rows at all, the last one must be right)
        let proj = Proj { input_values: false, expected: true, output: false, checked_kind: true, lines: false, vars: false, verdicts: false };
        let last_ref = r.items.last().unwrap();
        let m = match obs.items.iter().rev().find(|i| **i != ObsItem::End) {
            Some(oi @ ObsItem::Row(_)) if obs.items.len() >= r.items.len() => crate::compare::item_mismatch(last_ref, oi, proj, None, None),
            Some(ObsItem::Row(_)) | None => None,
            Some(other) if obs.items.len() >= r.items.len() && obs.items.iter().filter(|i| i.is_row()).count() >= 1 => Some(format!("item kind: expected {}, got {}", ref_brief(last_ref), other.brief())),
            _ => None,
        };
        if let Some(m) = m {
            total.violation(&format!("{} [large scale: after 12000 failing rows]", classify(&format!("item 0: {m}"))), 8 << 32, format!("{} rows that cannot be evaluated, then\n{}\nfirst difference at {m}", 12000, "0 ( 1 + p * 2 ) ( - ( q - 3 ) )"), || {
                json!({"kind": "dynamic", "text": text, "signals": sigs_json(&sigs), "driver_overrides_write_input": true, "script": crate::driver::script_json(&script), "max_next": r.items.len() + 1, "after_end": 0, "continue_after_error": true, "seed": 1, "repeat_last": true, "extra_known": [], "expected": [ref_brief(last_ref)], "observed": obs_items_brief(&obs).into_iter().rev().take(3).collect::<Vec<_>>(), "mismatch": m})
            });
        }
    }

    // ite is lazy also over the device: an output that floats (Z) or is unknown (X) in the branch that is
    // not selected does not matter, in the selected branch or the condition it is an error item
    {
        let sigs = sigs();
        let forms = vec![
            ite(name("p"), name("q"), lit(3)),
            ite(name("p"), lit(3), name("q")),
            ite(name("q"), lit(1), lit(2)),
            bin(BinOp::Add, ite(name("p"), bin(BinOp::Mul, name("q"), lit(2)), lit(4)), lit(1)),
            ite(name("p"), ite(lit(0), name("q"), lit(5)), ite(lit(1), lit(6), name("q"))),
        ];
        let mut body = vec![Stmt::Declare("V".into(), lit(0))];
        for f in &forms {
            body.push(Stmt::Row(vec![Entry::Lit(0, Radix::Dec), Entry::Paren(f.clone()), Entry::Bits(1, f.clone())]));
            body.push(Stmt::Let("t".into(), f.clone()));
        }
        let header: Vec<String> = vec!["A".into(), "V".into(), "O".into()];
        // bits(1, f) covers the column O? no: A V O are three columns: (f) is V's, bits(1,f) is O's
        let prog = Program { header, body };
        let text = text(&prog);
        for (pv, qv) in [(V::Num(0), V::Z), (V::Num(1), V::Z), (V::Num(0), V::X), (V::Num(1), V::X), (V::Num(1), V::Num(2))] {
            let ans: Answer = vec![("p".into(), pv), ("q".into(), qv), ("r".into(), V::Num(0)), ("s".into(), V::Num(0)), ("O".into(), V::Num(0))];
            let script = vec![Step::Ans(ans)];
            let mut env = ScriptEnv::new(&script);
            env.repeat_last = true;
            let r = crate::refsem::run_opts2(&prog, &sigs, &mut env, Fuel { steps: 2000, rows: 40 }, true, true);
            let mut opts = RunOpts::new(r.items.len() + 1);
            opts.repeat_last = true;
            opts.continue_after_error = true;
            let obs = run_dynamic(&text, &sigs, true, &script, &opts);
            total.evals += forms.len() as u64;
            total.nontrivial += forms.len() as u64;
            total.witness("ite_over_a_floating_or_unknown_device_output");
            let proj = Proj { input_values: true, expected: true, output: false, checked_kind: true, lines: false, vars: false, verdicts: false };
            // (what follows an error item is compared leniently: only if rows are yielded at all)
            let mut mm = run_mismatch(&r, &obs, proj, None);
            if let (Some((k, _)), Some(fe)) = (&mm, r.items.iter().position(|i| matches!(i, RefItem::ExprErr(_)))) {
                if *k > fe && !obs.items.get(*k).map(|i| i.is_row()).unwrap_or(false) {
                    mm = None;
                }
            }
            if let Some((k, m)) = mm {
                total.violation(&format!("{} [ite over Z/X device outputs]", classify(&m)), (9 << 32) + k as u64, format!("p = {}, q = {}\nprogram:\n{text}first difference at {m}", pv.show(), qv.show()), || dyn_replay(&text, &sigs, true, &script, &opts, ref_items_brief(&r), &obs, &m));
            }
        }
    }

    // operands written without blanks next to their operator, where the header has signals whose
    // names are spelt like that piece of text (any non-blank text is a signal name): `p-q` in an
    // expression is p minus q
    {
        let extra: Vec<(String, i64)> = BINOPS.iter().enumerate().map(|(i, op)| (format!("p{}q", op.text()), 1000 + i as i64)).chain([("-p".to_string(), 2000), ("!q".to_string(), 2001), ("~p".to_string(), 2002), ("(p)".to_string(), 2003)]).collect();
        let mut exprs: Vec<Expr> = BINOPS.iter().map(|op| Expr::Raw(vec![format!("p{}q", op.text())], Box::new(bin(*op, name("p"), name("q"))))).collect();
        exprs.push(Expr::Raw(vec!["-p".into()], Box::new(un(UnOp::Neg, name("p")))));
        exprs.push(Expr::Raw(vec!["!q".into()], Box::new(un(UnOp::Not, name("q")))));
        exprs.push(Expr::Raw(vec!["~p".into()], Box::new(un(UnOp::Inv, name("p")))));
        exprs.push(Expr::Raw(vec!["(p)".into()], Box::new(name("p"))));
        exprs.push(Expr::Raw(vec!["2*p-q-p".into()], Box::new(bin(BinOp::Sub, bin(BinOp::Sub, bin(BinOp::Mul, lit(2), name("p")), name("q")), name("p")))));
        for v in [vals[0], vals[3]] {
            let ex: Vec<Expr> = exprs.iter().filter(|e| ok_under(e, &v)).cloned().collect();
            total.witness_n("operands_glued_to_operators_next_to_signals_spelt_alike", ex.len() as u64);
            let vv = vec![v; ex.len()];
            batch_with(&mut total, 7 << 32, &ex, &vv, "tight spelling next to header signals spelt like the expression text", &extra);
        }
    }

    // variables, loop counters and device outputs that are called like the built-in functions: a name
    // is a call only when a parenthesis follows it
    {
        let sigs = vec![Sig::inp("A", 8, 0), Sig::out("O", 64), Sig::out("signExt", 64), Sig::out("Random", 64)];
        let body = vec![
            Stmt::Let("ite".into(), lit(3)),
            Stmt::Let("random".into(), lit(7)),
            Stmt::Row(vec![Entry::Lit(0, Radix::Dec), Entry::Paren(bin(BinOp::Add, bin(BinOp::Mul, name("random"), lit(2)), name("ite")))]),
            Stmt::Row(vec![Entry::Lit(1, Radix::Dec), Entry::Paren(bin(BinOp::Sub, name("signExt"), un(UnOp::Neg, name("ite"))))]),
            Stmt::Row(vec![Entry::Lit(2, Radix::Dec), Entry::Paren(ite(name("ite"), name("random"), name("Random")))]),
            Stmt::Loop("random".into(), lit(2), vec![Stmt::Row(vec![Entry::Paren(name("random")), Entry::Paren(bin(BinOp::Shl, name("Random"), name("random")))])]),
            Stmt::Row(vec![Entry::Lit(3, Radix::Dec), Entry::Paren(bin(BinOp::Lt, name("ite"), name("random")))]),
        ];
        let prog = Program { header: vec!["A".into(), "O".into()], body };
        let text = text(&prog);
        let script = vec![Step::Ans(vec![("O".into(), V::Num(0)), ("signExt".into(), V::Num(40)), ("Random".into(), V::Num(5))])];
        let r = ref_run_fuel(&prog, &sigs, &script, 10_000, 40);
        assert!(r.end == RefEnd::Done && !r.items.is_empty(), "C08 harness: function-named variables: {:?}", r.end);
        let mut opts = RunOpts::new(r.items.len() + 1);
        opts.repeat_last = true;
        let obs = run_dynamic(&text, &sigs, true, &script, &opts);
        total.evals += 1;
        total.nontrivial += 1;
        total.witness("names_spelt_like_built_in_functions");
        let proj = Proj { input_values: true, expected: true, output: false, checked_kind: true, lines: false, vars: false, verdicts: false };
        if let Some((k, m)) = crate::compare::run_mismatch(&r, &obs, proj, None) {
            total.violation(&format!("{} [names spelt like built-in functions]", crate::props::util::classify(&m)), 8 << 32, format!("program:\n{text}first difference at {m} (item {k})"), || dyn_replay(&text, &sigs, true, &script, &opts, crate::compare::ref_items_brief(&r), &obs, &m));
        }
    }

    // part 3: ite is lazy; part 4: literal radixes
    let st = par_range("3+4: ite laziness cases and literal radix forms", 2, &deadline, |idx, st| {
        if idx == 0 {
            let div0 = || bin(BinOp::Div, lit(1), lit(0));
            let cases: Vec<(Expr, [i64; 4])> = vec![
                (ite(name("p"), lit(7), div0()), [1, 0, 0, 0]),
                (ite(name("p"), div0(), lit(8)), [0, 0, 0, 0]),
                (ite(name("p"), lit(7), random(lit(2))), [5, 0, 0, 0]),
                (ite(name("p"), random(lit(5)), lit(9)), [0, 0, 0, 0]),
                (ite(name("p"), name("q"), bin(BinOp::Rem, name("r"), name("p"))), [1, 42, 3, 0]),
                (ite(bin(BinOp::Eq, name("p"), lit(0)), lit(7), bin(BinOp::Div, lit(100), name("p"))), [0, 0, 0, 0]),
                (ite(name("p"), ite(name("q"), div0(), lit(3)), div0()), [1, 0, 0, 0]),
                (bin(BinOp::Add, ite(name("p"), lit(1), div0()), ite(name("q"), div0(), lit(2))), [1, 0, 0, 0]),
                (ite(name("p"), lit(4), lit(5)), [-1, 0, 0, 0]),
                (ite(name("p"), lit(4), lit(5)), [i64::MIN, 0, 0, 0]),
                // the condition is evaluated also when both branches are the same expression
                (ite(bin(BinOp::Div, lit(1), name("p")), name("q"), name("q")), [1, 42, 0, 0]),
                (ite(name("p"), bin(BinOp::Add, name("q"), lit(1)), bin(BinOp::Add, name("q"), lit(1))), [0, 42, 0, 0]),
            ];
            st.witness_n("ite_with_failing_or_drawing_unselected_branch", cases.len() as u64);
            st.nontrivial += cases.len() as u64;
            let exprs: Vec<Expr> = cases.iter().map(|c| c.0.clone()).collect();
            let vv: Vec<[i64; 4]> = cases.iter().map(|c| c.1).collect();
            // the unselected branch must not draw: run once more just for the draw log
            let sigs = sigs();
            for (e, v) in &cases {
                let prog = Program { header: vec!["A".into(), "V".into(), "O".into()], body: vec![Stmt::Declare("V".into(), lit(0)), Stmt::Row(vec![Entry::Lit(0, Radix::Dec), Entry::Paren(e.clone()), Entry::X])] };
                let text = text(&prog);
                let script = vec![Step::Ans(answer(v)), Step::Ans(answer(v))];
                let opts = RunOpts::new(2);
                let obs = run_dynamic(&text, &sigs, true, &script, &opts);
                if !obs.draws.is_empty() {
                    let m = format!("item 0: ite: the unselected branch drew from the generator: {:?}", obs.draws);
                    st.violation("ite draws in unselected branch", (3 << 32) + 1, format!("expression: {}\n{m}", expr_text(e)), || dyn_replay(&text, &sigs, true, &script, &opts, vec!["no draw".into()], &obs, &m));
                }
            }
            batch(st, 3 << 32, &exprs, &vv, "part 3: ite evaluates only the selected branch");
            // a condition that cannot be evaluated makes the row an error item, whatever the branches are
            let failing: Vec<(Expr, [i64; 4])> = vec![
                (ite(div0(), lit(5), lit(5)), [0, 0, 0, 0]),
                (ite(bin(BinOp::Div, lit(1), name("p")), name("q"), name("q")), [0, 42, 0, 0]),
                (ite(bin(BinOp::Rem, name("q"), name("p")), lit(1), lit(2)), [0, 42, 0, 0]),
                (ite(ite(name("p"), div0(), lit(1)), lit(3), lit(3)), [1, 0, 0, 0]),
            ];
            for (k, (e, v)) in failing.iter().enumerate() {
                let prog = Program { header: vec!["A".into(), "V".into(), "O".into()], body: vec![Stmt::Declare("V".into(), lit(0)), Stmt::Row(vec![Entry::Lit(0, Radix::Dec), Entry::Paren(e.clone()), Entry::X])] };
                let text = text(&prog);
                let script = vec![Step::Ans(answer(v)), Step::Ans(answer(v))];
                let opts = RunOpts::new(2);
                let obs = run_dynamic(&text, &sigs, true, &script, &opts);
                st.evals += 1;
                st.nontrivial += 1;
                st.witness("ite_whose_condition_cannot_be_evaluated");
                if !matches!(obs.items.first(), Some(ObsItem::Runtime(_))) {
                    let m = format!("item 0: ite: the condition divides by zero, the row must be an error item; got {}", obs.items.first().map(|i| i.brief()).unwrap_or("nothing".into()));
                    st.violation("ite with a failing condition yields a value", (3 << 32) + 16 + k as u64, format!("expression: {}\n{m}", expr_text(e)), || dyn_replay(&text, &sigs, true, &script, &opts, vec!["an error item".into()], &obs, &m));
                }
            }
        } else {
            let mut exprs = vec![];
            // incl. values whose hex / binary spelling starts with a letter that is also a radix marker
            for v in [0i64, 2, 3, 7, 8, 10, 11, 16, 17, 0x101, 101, 5, 0xb0, 0xB4, 0xBEEF, 0xbb, 0xB, 255, 0o777, 0x7fff_ffff_ffff_ffff, 1 << 32, 0x0bad_f00d_dead_beef] {
                for r in RADIXES {
                    exprs.push(Expr::Lit(v, r));
                    exprs.push(bin(BinOp::Add, Expr::Lit(v, r), lit(0)));
                }
            }
            st.witness_n("literal_radix_form", exprs.len() as u64);
            st.nontrivial += exprs.len() as u64;
            let vv = vec![[0; 4]; exprs.len()];
            batch(st, 4 << 32, &exprs, &vv, "part 4: integer literal radix forms");
        }
    });
    total.merge(st);

    let meta = CheckMeta {
        id: "C08",
        tier,
        seed,
        rule: "part 1a: every flat chain of four operands and three of the 16 binary operators, without and with one operand prefixed by one of the 12 unary prefixes of length 1 or 2, printed without parentheses, reference tree built by level-by-level left-associative reduction; part 1b: every binary tree shape over four leaves x operator triple, printed with minimal and with full parentheses; part 2: every operator x every pair of 19 boundary operands; part 3: ite laziness; part 4: literal radixes. Cases whose reference value is an error (division by zero) belong to C10 and are filtered (counted out_of_scope when a whole unit vanishes). Every enumerated (expression, valuation) is distinct by construction".into(),
        assumptions: vec![
            "reference evaluator refsem::binop/unop/climb is the oracle (i64 wrapping, shift count & 63, truncating division, MIN/-1 = MIN, MIN%-1 = 0)".into(),
            "valuations are a fixed set of 12 (4 for the unary-prefixed chains in the quick tier) chosen so that different trees give different values; values outside the boundary sets are not enumerated (DESIGN section 10)".into(),
        ],
        required_witnesses: vec!["very_long_expression", "expression_after_12000_rows_that_could_not_be_evaluated", "operands_glued_to_operators_next_to_signals_spelt_alike", "operand_written_as_a_function_call", "ite_over_a_floating_or_unknown_device_output", "flat_chain", "unary_prefixed_operand", "explicit_tree", "operator_table_entry", "MIN_op_minus_one", "shift_count_outside_0_63", "ite_with_failing_or_drawing_unselected_branch", "ite_whose_condition_cannot_be_evaluated", "names_spelt_like_built_in_functions", "literal_radix_form"],
        exhaustive_note: "all operator triples, shapes, prefixes and operand pairs listed".into(),
        e1: false,
    };
    finish(meta, total, started)
}
