//! Helpers shared by the per-property checks.

use crate::compare::*;
use crate::driver::*;
use crate::model::*;
use crate::refsem::*;
use crate::subject::*;
use serde_json::{json, Value};

pub fn dyn_replay(text: &str, sigs: &[Sig], ov: bool, script: &[Step], opts: &RunOpts, expected: Vec<String>, obs: &Obs, mismatch: &str) -> Value {
    json!({
        "kind": "dynamic",
        "text": text,
        "signals": sigs_json(sigs),
        "driver_overrides_write_input": ov,
        "script": script_json(script),
        "max_next": opts.max_next,
        "after_end": opts.after_end,
        "continue_after_error": opts.continue_after_error,
        "seed": opts.seed,
        "repeat_last": opts.repeat_last,
        "extra_known": sigs_json(&opts.extra_known),
        "expected": expected,
        "observed": obs_items_brief(obs),
        "mismatch": mismatch,
    })
}

/// Class of a mismatch description: the text before the first value-specific part.
pub fn classify(desc: &str) -> String {
    // "item 3: inputs[1] (P1): expected value 2, got 3" -> "inputs value"
    let d = desc.split_once(": ").map(|x| x.1).unwrap_or(desc);
    let d = if desc.starts_with("item ") || desc.starts_with("construction") { d } else { desc };
    if desc.starts_with("construction") {
        if desc.contains("Panic") {
            return format!("construction panic {}", panic_site(desc));
        }
        return "construction".into();
    }
    if d.contains("PANIC(") {
        return format!("panic {}", panic_site(d));
    }
    if d.contains("DIVERGES") {
        return "diverges".into();
    }
    if d.starts_with("inputs[") {
        return if d.contains("expected signal") { "inputs signal".into() } else { "inputs value".into() };
    }
    if d.starts_with("inputs:") {
        return "inputs length".into();
    }
    if d.starts_with("outputs:") {
        return "outputs length / checked kind".into();
    }
    if d.starts_with("outputs[") {
        if d.contains("expected signal") {
            return "outputs signal".into();
        }
        if d.contains("expected value") {
            return "outputs expected".into();
        }
        if d.contains("device value") {
            return "outputs output".into();
        }
        return "outputs verdict".into();
    }
    if d.starts_with("line") {
        return "line".into();
    }
    if d.starts_with("vars()") {
        return "vars".into();
    }
    if d.starts_with("item kind") {
        if d.contains("got end") {
            return "ended early".into();
        }
        if d.contains("got runtime-error") {
            return "unexpected runtime error".into();
        }
        if d.contains("expected runtime-error") {
            return "missing runtime error".into();
        }
        return "item kind".into();
    }
    if d.starts_with("expected end of iteration") {
        return "extra item".into();
    }
    if d.contains("after the end") {
        return "item after end".into();
    }
    if d.contains("not advanced") {
        return "stopped early".into();
    }
    d.chars().take(40).collect()
}

/// "src/expr.rs:201" out of a panic description
pub fn panic_site(d: &str) -> String {
    if let Some(i) = d.find("src/") {
        let rest = &d[i..];
        let end = rest.find(": ").unwrap_or(rest.len().min(40));
        return rest[..end].to_string();
    }
    "?".into()
}

/// A script that answers every call with `answers[min(k, len-1)]`, long enough for `calls` calls.
pub fn padded_script(answers: &[Answer], calls: usize) -> Vec<Step> {
    (0..calls).map(|k| Step::Ans(answers[k.min(answers.len() - 1)].clone())).collect()
}

/// Reference run over a script
pub fn ref_run(p: &Program, sigs: &[Sig], script: &[Step]) -> RefRun {
    let mut env = ScriptEnv::new(script);
    run(p, sigs, &mut env, Fuel::default())
}

/// Reference run over a repeating script with explicit fuel
pub fn ref_run_fuel(p: &Program, sigs: &[Sig], script: &[Step], steps: usize, rows: usize) -> RefRun {
    let mut env = ScriptEnv::new(script);
    env.repeat_last = true;
    run(p, sigs, &mut env, Fuel { steps, rows })
}

pub fn not_loaded(init: &ObsInit) -> Obs {
    Obs { init: init.clone(), items: vec![], calls_after: vec![], log: vec![], exhausted: false, vars: vec![], key: None, draws: vec![], signal_names: vec![], vars_panic: None }
}

/// Reference run over a script whose last step repeats for ever
pub fn ref_run_repeat(p: &Program, sigs: &[Sig], script: &[Step]) -> RefRun {
    let mut env = ScriptEnv::new(script);
    env.repeat_last = true;
    run(p, sigs, &mut env, Fuel::default())
}
