//! Helpers shared by the per-property checks.

use crate::compare::*;
use crate::driver::*;
use crate::model::*;
use crate::refsem::*;
use crate::subject::*;
use serde_json::{json, Value};

pub fn dyn_replay(text: &str, sigs: &[Sig], ov: bool, script: &[Step], opts: &RunOpts, expected: Vec<String>, obs: &Obs, mismatch: &str) -> Value {
    json!({
        "kind": "dynamic",
        "text": text,
        "signals": sigs_json(sigs),
        "driver_overrides_write_input": ov,
        "script": script_json(script),
        "max_next": opts.max_next,
        "after_end": opts.after_end,
        "continue_after_error": opts.continue_after_error,
        "seed": opts.seed,
        "repeat_last": opts.repeat_last,
        "poke": opts.poke,
        "stride": opts.stride,
        "extra_known": sigs_json(&opts.extra_known),
        "expected": expected,
        "observed": obs_items_brief(obs),
        "mismatch": mismatch,
    })
}

/// Class of a mismatch description: the text before the first value-specific part.
pub fn classify(desc: &str) -> String {
    // "item 3: inputs[1] (P1): expected value 2, got 3" -> "inputs value"
    let d = desc.split_once(": ").map(|x| x.1).unwrap_or(desc);
    let d = if desc.starts_with("item ") || desc.starts_with("construction") { d } else { desc };
    if desc.starts_with("construction") {
        if desc.contains("Panic") {
            return format!("construction panic {}", panic_site(desc));
        }
        return "construction".into();
    }
    if d.contains("PANIC(") {
        return format!("panic {}", panic_site(d));
    }
    if d.contains("DIVERGES") {
        return "diverges".into();
    }
    if d.starts_with("inputs[") {
        return if d.contains("expected signal") { "inputs signal".into() } else { "inputs value".into() };
    }
    if d.starts_with("inputs:") {
        return "inputs length".into();
    }
    if d.starts_with("outputs:") {
        return "outputs length / checked kind".into();
    }
    if d.starts_with("outputs[") {
        if d.contains("expected signal") {
            return "outputs signal".into();
        }
        if d.contains("expected value") {
            return "outputs expected".into();
        }
        if d.contains("device value") {
            return "outputs output".into();
        }
        return "outputs verdict".into();
    }
    if d.starts_with("line") {
        return "line".into();
    }
    if d.starts_with("vars()") {
        return "vars".into();
    }
    if d.starts_with("item kind") {
        if d.contains("got end") {
            return "ended early".into();
        }
        if d.contains("got runtime-error") {
            return "unexpected runtime error".into();
        }
        if d.contains("expected runtime-error") {
            return "missing runtime error".into();
        }
        return "item kind".into();
    }
    if d.starts_with("expected end of iteration") {
        return "extra item".into();
    }
    if d.contains("after the end") {
        return "item after end".into();
    }
    if d.contains("not advanced") {
        return "stopped early".into();
    }
    d.chars().take(40).collect()
}

/// "src/expr.rs:201" out of a panic description
pub fn panic_site(d: &str) -> String {
    if let Some(i) = d.find("src/") {
        let rest = &d[i..];
        let end = rest.find(": ").unwrap_or(rest.len().min(40));
        return rest[..end].to_string();
    }
    "?".into()
}

/// A script that answers every call with `answers[min(k, len-1)]`, long enough for `calls` calls.
pub fn padded_script(answers: &[Answer], calls: usize) -> Vec<Step> {
    (0..calls).map(|k| Step::Ans(answers[k.min(answers.len() - 1)].clone())).collect()
}

/// Reference run over a script
pub fn ref_run(p: &Program, sigs: &[Sig], script: &[Step]) -> RefRun {
    let mut env = ScriptEnv::new(script);
    run(p, sigs, &mut env, Fuel::default())
}

/// Reference run over a repeating script with explicit fuel
pub fn ref_run_fuel(p: &Program, sigs: &[Sig], script: &[Step], steps: usize, rows: usize) -> RefRun {
    let mut env = ScriptEnv::new(script);
    env.repeat_last = true;
    run(p, sigs, &mut env, Fuel { steps, rows })
}

pub fn not_loaded(init: &ObsInit) -> Obs {
    Obs { init: init.clone(), items: vec![], calls_after: vec![], log: vec![], exhausted: false, vars: vec![], key: None, draws: vec![], signal_names: vec![], vars_panic: None }
}

/// Reference run over a script whose last step repeats for ever
pub fn ref_run_repeat(p: &Program, sigs: &[Sig], script: &[Step]) -> RefRun {
    let mut env = ScriptEnv::new(script);
    env.repeat_last = true;
    run(p, sigs, &mut env, Fuel::default())
}

/// One use of a loaded test: a dynamic run against a scripted driver, or a static iteration.
#[derive(Clone)]
pub struct Use {
    pub script: Vec<Step>,
    pub ov: bool,
    pub static_iteration: bool,
}

impl Use {
    pub fn dynamic(script: Vec<Step>, ov: bool) -> Use {
        Use { script, ov, static_iteration: false }
    }
    pub fn json(&self) -> Value {
        json!({"script": script_json(&self.script), "driver_overrides_write_input": self.ov, "static": self.static_iteration})
    }
    pub fn from_json(j: &Value) -> Use {
        Use {
            script: j["script"].as_array().map(|a| a.iter().filter_map(Step::from_json).collect()).unwrap_or_default(),
            ov: j["driver_overrides_write_input"].as_bool().unwrap_or(true),
            static_iteration: j["static"].as_bool().unwrap_or(false),
        }
    }
}

pub fn obs_lines(o: &Obs) -> Vec<String> {
    let mut v = obs_items_brief(o);
    v.push(format!("call kinds: {}", o.log.iter().map(|c| if c.rw { "rw" } else { "w" }).collect::<Vec<_>>().join(" ")));
    v
}

/// The same loaded `TestCase` object is used several times in a row (`uses`, in order); what the
/// last use observes is returned, next to what the same use observes on a freshly loaded test.
/// A test's behaviour is a function of its text, its signal list and the driver's responses:
/// the two must be equal.
pub fn reuse_observations(text: &str, sigs: &[Sig], uses: &[Use], opts: &RunOpts) -> Option<(Vec<String>, Vec<String>)> {
    let run_use = |tc: &digital_test_runner::TestCase, u: &Use| -> Vec<String> {
        if u.static_iteration {
            match run_static_opt(tc, opts.max_next, opts.seed, opts.budget, opts.continue_after_error) {
                StaticObs::Rows(rows, ended) => rows.iter().map(|r| format!("{r:?}")).chain(std::iter::once(format!("ended: {ended}"))).collect(),
                other => vec![format!("{other:?}")],
            }
        } else {
            obs_lines(&run_loaded(tc, sigs, u.ov, &u.script, opts))
        }
    };
    let tc = load(text, sigs, opts.budget).ok()?;
    let mut reused = vec![];
    for u in uses {
        reused = run_use(&tc, u);
    }
    let fresh_tc = load(text, sigs, opts.budget).ok()?;
    let fresh = run_use(&fresh_tc, uses.last()?);
    // a clone of the used test (taken after its uses) is the same test, and equal to a fresh one
    if reused == fresh {
        let cloned = tc.clone();
        let on_clone = run_use(&cloned, uses.last()?);
        if on_clone != fresh {
            return Some((on_clone.into_iter().map(|l| format!("[on a clone of the used test] {l}")).collect(), fresh));
        }
        if tc != fresh_tc {
            return Some((vec!["the used test no longer compares equal (==) to a freshly loaded one".into()], vec!["equal".into()]));
        }
    }
    Some((reused, fresh))
}

pub fn reuse_replay(text: &str, sigs: &[Sig], uses: &[Use], opts: &RunOpts, reused: &[String], fresh: &[String]) -> Value {
    json!({
        "kind": "reuse",
        "text": text,
        "signals": sigs_json(sigs),
        "uses": uses.iter().map(|u| u.json()).collect::<Vec<_>>(),
        "max_next": opts.max_next,
        "continue_after_error": opts.continue_after_error,
        "repeat_last": opts.repeat_last,
        "seed": opts.seed,
        "expected": fresh,
        "observed": reused,
    })
}

pub fn replay_reuse(j: &Value) -> Vec<String> {
    let sigs: Vec<Sig> = j["signals"].as_array().map(|a| a.iter().filter_map(|s| s.as_str().and_then(Sig::parse)).collect()).unwrap_or_default();
    let uses: Vec<Use> = j["uses"].as_array().map(|a| a.iter().map(Use::from_json).collect()).unwrap_or_default();
    let mut opts = RunOpts::new(j["max_next"].as_u64().unwrap_or(40) as usize);
    opts.continue_after_error = j["continue_after_error"].as_bool().unwrap_or(false);
    opts.repeat_last = j["repeat_last"].as_bool().unwrap_or(true);
    opts.seed = j["seed"].as_u64().unwrap_or(1);
    match reuse_observations(j["text"].as_str().unwrap_or(""), &sigs, &uses, &opts) {
        Some((reused, _)) => reused,
        None => vec!["test does not load".into()],
    }
}

/// Every ordered pair (and, with `triples`, the triples a-b-a... not needed) of `uses` on one
/// loaded test: the second use must observe what it observes on a freshly loaded test.
pub fn check_reuse_pairs(st: &mut crate::engine::Stats, order: u64, what: &str, text: &str, sigs: &[Sig], uses: &[Use], opts: &RunOpts) {
    for (i, a) in uses.iter().enumerate() {
        for (k, b) in uses.iter().enumerate() {
            if i == k {
                continue;
            }
            let pair = [a.clone(), b.clone()];
            let Some((reused, fresh)) = reuse_observations(text, sigs, &pair, opts) else { return };
            st.evals += 1;
            st.nontrivial += 1;
            st.witness("one_loaded_test_used_twice_with_different_drivers");
            if reused != fresh {
                let first = reused.iter().zip(fresh.iter()).position(|(x, y)| x != y).unwrap_or(reused.len().min(fresh.len()));
                let summary = format!(
                    "{what}\nprogram:\n{text}signals: {}\nthe loaded test is first used with [{}], then with [{}]\nsecond use, line {first}: {}\nsame use of a freshly loaded test: {}",
                    sigs.iter().map(|s| s.show()).collect::<Vec<_>>().join(", "),
                    if a.static_iteration { "static iteration".to_string() } else { a.script.iter().take(3).map(|s| s.json().to_string()).collect::<Vec<_>>().join(" ") },
                    if b.static_iteration { "static iteration".to_string() } else { b.script.iter().take(3).map(|s| s.json().to_string()).collect::<Vec<_>>().join(" ") },
                    reused.get(first).cloned().unwrap_or("(nothing)".into()),
                    fresh.get(first).cloned().unwrap_or("(nothing)".into())
                );
                st.violation("a loaded test behaves differently on its second use", order << 12 | (i as u64) << 6 | k as u64, summary, || reuse_replay(text, sigs, &pair, opts, &reused, &fresh));
                return;
            }
        }
    }
}


/// A caller may advance the iterator with `nth(k)` (that is what `skip` and `step_by` do): it gets
/// item k of what `next()` would have yielded, and the device sees exactly the same calls.
pub fn check_nth(st: &mut crate::engine::Stats, order: u64, what: &str, text: &str, sigs: &[Sig], ov: bool, script: &[Step], max_items: usize) {
    let Ok(tc) = load(text, sigs, DEFAULT_BUDGET) else { return };
    let mut opts = RunOpts::new(max_items);
    opts.continue_after_error = true;
    opts.repeat_last = true;
    opts.after_end = 1;
    let plain = run_loaded(&tc, sigs, ov, script, &opts);
    if plain.init != ObsInit::Ok {
        return;
    }
    for stride in 1..=3usize {
        let mut o2 = opts.clone();
        o2.stride = stride;
        o2.max_next = max_items / (stride + 1);
        o2.after_end = 0;
        let strided = run_loaded(&tc, sigs, ov, script, &o2);
        st.evals += 1;
        st.nontrivial += 1;
        st.witness("iterator_advanced_with_nth");
        let mut bad = None;
        for (j, it) in strided.items.iter().enumerate() {
            let k = (stride + 1) * (j + 1) - 1;
            let want = plain.items.get(k).cloned().unwrap_or(ObsItem::End);
            if *it != want && !(want == ObsItem::End && *it == ObsItem::End) {
                bad = Some(format!("call {j} of nth({stride}) returns {}, but item {k} of the run advanced with next() is {}", it.brief(), want.brief()));
                break;
            }
            // the device has seen the same calls as after item k of the plain run
            let calls_plain = plain.calls_after.get(k + 1).copied().unwrap_or(plain.log.len());
            let calls_strided = strided.calls_after.get(j + 1).copied().unwrap_or(0);
            if calls_strided != calls_plain || strided.log[..calls_strided.min(strided.log.len())] != plain.log[..calls_plain.min(plain.log.len())] {
                bad = Some(format!("after call {j} of nth({stride}) the driver has seen {calls_strided} calls, after item {k} of the run advanced with next() {calls_plain} (or they differ in kind or inputs)"));
                break;
            }
            if want == ObsItem::End {
                break;
            }
        }
        if let Some(m) = bad {
            let summary = format!("{what}\nprogram:\n{text}script: {}\n{m}", script.iter().take(6).map(|s| s.json().to_string()).collect::<Vec<_>>().join(" "));
            st.violation("nth(k) differs from k+1 calls of next()", order << 4 | stride as u64, summary, || dyn_replay(text, sigs, ov, script, &o2, obs_items_brief(&plain), &strided, &m));
            return;
        }
    }
}
