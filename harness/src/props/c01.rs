//! C01 (control flow and variables determine the rows) and C18 (vars()) — DESIGN §6.
//! Bounded-exhaustive enumeration of all programs with K statement nodes over a
//! scoping-revealing alphabet, each run against the reference interpreter.

use crate::compare::*;
use crate::driver::*;
use crate::engine::*;
use crate::model::*;
use crate::props::util::*;
use crate::refsem::*;
use crate::space::*;
use crate::subject::*;
use serde_json::json;
use std::time::Instant;

const HEADER: [&str; 7] = ["P0", "P1", "P2", "a", "i", "n", "Q"];

pub fn signal_lists() -> Vec<Vec<Sig>> {
    let l0 = vec![
        Sig::inp("P0", 16, 0),
        Sig::inp("P1", 16, 0),
        Sig::inp("P2", 16, 0),
        Sig::out("a", 16),
        Sig::out("i", 16),
        Sig::out("n", 16),
        Sig::out("Q", 16),
    ];
    let l1 = vec![
        Sig::out("Q", 16),
        Sig::out("n", 16),
        Sig::inp("P2", 16, 0),
        Sig::out("i", 16),
        Sig::inp("P1", 16, 0),
        Sig::out("a", 16),
        Sig::inp("P0", 16, 0),
    ];
    let mut l2 = l0.clone();
    l2[1] = Sig::bidir("P1", 16, V::Num(0));
    vec![l0, l1, l2]
}

fn answer(sigs: &[Sig], q: i64) -> Answer {
    sigs.iter()
        .filter(|s| s.is_out())
        .map(|s| {
            let v = match s.name.as_str() {
                "a" => 201,
                "i" => 202,
                "n" => 203,
                "Q" => q,
                _ => 204,
            };
            (s.name.clone(), V::Num(v))
        })
        .collect()
}

fn p(e: Expr) -> Entry {
    Entry::Paren(e)
}

fn row() -> Vec<Entry> {
    vec![p(name("a")), p(name("i")), p(name("n")), Entry::X, Entry::X, Entry::X, Entry::X]
}

pub fn alphabet(c18: bool, reduced: bool) -> (Vec<Stmt>, Vec<Block>) {
    let add = |a: Expr, b: Expr| bin(BinOp::Add, a, b);
    let sub = |a: Expr, b: Expr| bin(BinOp::Sub, a, b);
    let lt = |a: Expr, b: Expr| bin(BinOp::Lt, a, b);
    let mut atoms = vec![Stmt::Row(row())];
    let mut blocks = vec![];
    if reduced {
        atoms.push(Stmt::Let("a".into(), add(name("a"), lit(1))));
        atoms.push(Stmt::Let("i".into(), lit(1)));
        atoms.push(Stmt::Let("n".into(), lit(2)));
        atoms.push(Stmt::Repeat(lit(2), row()));
        atoms.push(Stmt::Repeat(name("n"), row()));
        if c18 {
            atoms.push(Stmt::Row(vec![Entry::Lit(1, Radix::Dec), Entry::Lit(2, Radix::Dec), Entry::Z, Entry::X, Entry::X, Entry::X, Entry::X]));
            atoms.push(Stmt::Repeat(lit(2), vec![Entry::Lit(1, Radix::Dec), Entry::X, Entry::C, Entry::X, Entry::X, Entry::X, Entry::X]));
        }
        blocks.push(Block::Loop("i".into(), lit(0)));
        blocks.push(Block::Loop("i".into(), lit(2)));
        blocks.push(Block::Loop("a".into(), name("a")));
        blocks.push(Block::While(lt(name("a"), lit(2))));
        blocks.push(Block::While(lit(0)));
        return (atoms, blocks);
    }
    atoms.push(Stmt::Row(vec![Entry::Bits(2, name("a")), p(name("i")), Entry::X, Entry::X, Entry::X, Entry::X]));
    // bits of a negative value (two's complement, most significant first) on signals wider than one bit
    atoms.push(Stmt::Row(vec![Entry::Bits(3, sub(name("i"), lit(3))), Entry::X, Entry::X, Entry::X, Entry::X]));
    if c18 {
        // rows without any expression (alone in a loop or as a repeat row: the counter is a variable all the same)
        atoms.push(Stmt::Row(vec![Entry::Lit(1, Radix::Dec), Entry::Lit(2, Radix::Dec), Entry::Z, Entry::X, Entry::X, Entry::X, Entry::X]));
        atoms.push(Stmt::Repeat(lit(2), vec![Entry::Lit(1, Radix::Dec), Entry::X, Entry::C, Entry::X, Entry::X, Entry::X, Entry::X]));
        atoms.push(Stmt::Row(vec![Entry::C, p(name("i")), p(name("n")), Entry::X, Entry::X, Entry::X, Entry::X]));
        atoms.push(Stmt::Row(vec![Entry::X, p(name("i")), p(name("a")), Entry::X, Entry::X, Entry::X, Entry::X]));
    }
    for x in ["a", "i", "n"] {
        for e in [lit(1), lit(2), add(name("a"), lit(1)), add(name("i"), lit(2)), name("Q")] {
            atoms.push(Stmt::Let(x.into(), e));
        }
    }
    for b in [lit(0), lit(2), name("n"), name("a"), name("Q")] {
        atoms.push(Stmt::Repeat(b, row()));
    }
    atoms.push(Stmt::ResetRandom);
    for v in ["i", "a"] {
        for b in [lit(0), lit(1), lit(2), sub(lit(0), lit(1)), name("a"), add(name("n"), lit(1)), name("Q")] {
            blocks.push(Block::Loop(v.into(), b));
        }
    }
    // 1 - a is negative (and so true) while a holds the device value or 2
    for c in [lit(0), lt(name("a"), lit(2)), lt(name("i"), lit(1)), bin(BinOp::Eq, name("n"), lit(203)), name("Q"), sub(lit(1), name("a"))] {
        blocks.push(Block::While(c));
    }
    (atoms, blocks)
}

struct Plan {
    space: ForestSpace,
    k: usize,
    /// include programs that mention Q (bounds read from the device, 81 scripts each)
    with_q: bool,
    lists: Vec<usize>,
    label: String,
}

/// A few programs far beyond the small scope in size: many iterations and rows (counters and
/// row numbers beyond 8 and 16 bits), 40 levels of nesting, long identifiers.
fn large_cases(deadline: &Deadline) -> Stats {
    let sigs = vec![Sig::inp("P0", 64, 0), Sig::inp("P1", 16, 0), Sig::out("Q", 16)];
    let l = |n: i64| Entry::Lit(n, Radix::Dec);
    let p = |e: Expr| Entry::Paren(e);
    let long = "v".repeat(300);
    let mut deep = vec![Stmt::Row(vec![p(name("k0")), p(name("k39")), Entry::X])];
    for d in (0..40).rev() {
        deep = vec![Stmt::Loop(format!("k{d}"), lit(if d % 13 == 0 { 2 } else { 1 }), deep)];
    }
    let progs: Vec<(&str, Vec<Stmt>)> = vec![
        ("70000 iterations", vec![Stmt::Loop("i".into(), lit(70_000), vec![Stmt::Row(vec![p(name("i")), p(bin(BinOp::Shr, name("i"), lit(8))), Entry::X])]), Stmt::Row(vec![l(1), l(2), l(3)])]),
        ("repeat(300) inside loop(i,300) with an accumulator", vec![Stmt::Let("acc".into(), lit(0)), Stmt::Loop("i".into(), lit(300), vec![Stmt::Let("acc".into(), bin(BinOp::Add, name("acc"), name("i"))), Stmt::Repeat(lit(3), vec![p(name("acc")), p(name("n")), Entry::X])])]),
        ("while counting to 1000", vec![Stmt::Let("c".into(), lit(0)), Stmt::While(bin(BinOp::Lt, name("c"), lit(1000)), vec![Stmt::Let("c".into(), bin(BinOp::Add, name("c"), lit(1))), Stmt::Row(vec![p(name("c")), l(0), Entry::X])])]),
        ("40 nested loops", deep),
        ("600 000 passes of a while body without a row, then rows", vec![Stmt::Let("c".into(), lit(0)), Stmt::Row(vec![p(name("c")), l(0), Entry::X]), Stmt::While(bin(BinOp::Lt, name("c"), lit(600_000)), vec![Stmt::Let("c".into(), bin(BinOp::Add, name("c"), lit(1)))]), Stmt::Row(vec![p(name("c")), l(1), Entry::X]), Stmt::Row(vec![p(bin(BinOp::Add, name("c"), lit(1))), l(2), Entry::X])]),
        ("a loop of 400 000 iterations without a row, then a row", vec![Stmt::Let("s".into(), lit(0)), Stmt::Loop("i".into(), lit(400_000), vec![Stmt::Let("s".into(), bin(BinOp::Add, name("s"), lit(1)))]), Stmt::Row(vec![p(name("s")), l(7), Entry::X])]),
        ("identifiers of 300 characters", vec![Stmt::Let(long.clone(), lit(5)), Stmt::Loop(format!("{long}x"), lit(3), vec![Stmt::Row(vec![p(bin(BinOp::Add, name(&long), name(&format!("{long}x")))), l(0), Entry::X])])]),
        ("2000 statements at top level", (0..2000).map(|j| if j % 2 == 0 { Stmt::Let("t".into(), lit(j)) } else { Stmt::Row(vec![p(name("t")), l(j % 7), Entry::X]) }).collect()),
    ];
    par_range("large-scale programs (sizes far beyond the enumerated scope)", progs.len() as u64, deadline, |idx, st| {
        let (what, body) = &progs[idx as usize];
        let prog = Program { header: vec!["P0".into(), "P1".into(), "Q".into()], body: body.clone() };
        let text = text(&prog);
        let script = vec![Step::Ans(vec![("Q".into(), V::Num(1))])];
        let r = ref_run_fuel(&prog, &sigs, &script, 3_000_000, 300_000);
        assert!(r.end == RefEnd::Done, "large case '{what}' does not finish in the reference: {:?}", r.end);
        st.evals += 1;
        st.nontrivial += 1;
        st.witness("large_scale_program");
        let mut opts = RunOpts::new(r.items.len() + 1);
        opts.repeat_last = true;
        opts.budget = 50_000_000;
        let obs = run_dynamic(&text, &sigs, true, &script, &opts);
        st.steps += obs.items.len() as u64;
        if let Some((k, m)) = run_mismatch(&r, &obs, Proj::ROWS, None) {
            let short: String = text.chars().take(600).collect();
            st.violation(&format!("large scale: {}", classify(&m)), (10 << 56) + idx, format!("{what}\nprogram (first 600 characters):\n{short}\nfirst difference at {m} (item {k} of {})", r.items.len()), || {
                json!({"kind": "dynamic", "text": text, "signals": sigs_json(&sigs), "driver_overrides_write_input": true, "script": crate::driver::script_json(&script), "max_next": (k + 2), "after_end": 0, "continue_after_error": false, "seed": 1, "repeat_last": true, "extra_known": [], "expected": ref_items_brief(&r).into_iter().skip(k.saturating_sub(1)).take(4).collect::<Vec<_>>(), "observed": obs_items_brief(&obs).into_iter().take(k + 3).collect::<Vec<_>>(), "mismatch": m})
            });
        }
    })
}

/// `bits(k, e)` for every k from 1 to 64 over patterned values: k one-bit columns, most significant
/// bit first (the widest forms lie far outside the enumerated programs, whose rows have two columns).
fn wide_bits_cases(deadline: &Deadline) -> Stats {
    par_range("bits(k, e) for k = 1..=64 x 12 patterned values, alone and split as bits(k-j, e >> j) bits(j, e)", 64, deadline, |idx, st| {
        let k = idx as usize + 1;
        let mut sigs: Vec<Sig> = (0..k).map(|i| Sig::inp(&format!("B{i}"), 1, 0)).collect();
        sigs.push(Sig::inp("T", 8, 0));
        sigs.push(Sig::out("Q", 4));
        let mut header: Vec<String> = (0..k).map(|i| format!("B{i}")).collect();
        header.push("T".into());
        header.push("Q".into());
        let vals: [i64; 12] = [-1, i64::MIN, 1, i64::MAX, 0x5555_5555_5555_5555, 0xAAAA_AAAA_AAAA_AAAAu64 as i64, 0x0123_4567_89AB_CDEF, 1i64 << (k - 1).min(62), (1i64 << (k - 1).min(62)) - 1, -2, 0x8000_0000, 0xFFFF_FFFF];
        let mut body = vec![];
        for (i, v) in vals.iter().enumerate() {
            let e = || bin(BinOp::Sub, Expr::Lit(0, Radix::Dec), Expr::Lit(v.wrapping_neg(), Radix::Dec));
            let e = if *v >= 0 { lit(*v) } else if *v == i64::MIN { bin(BinOp::Shl, lit(1), lit(63)) } else { e() };
            body.push(Stmt::Row(vec![Entry::Bits(k as u8, e.clone()), Entry::Lit(i as i64, Radix::Dec), Entry::X]));
            if i % 4 == 0 {
                // bits(0, e) stands for no column at all, wherever it is written
                body.push(Stmt::Row(vec![Entry::Bits(0, e.clone()), Entry::Bits(k as u8, e.clone()), Entry::Bits(0, lit(1)), Entry::Lit(i as i64 + 1, Radix::Dec), Entry::X]));
            }
            if k >= 2 {
                let j = k / 2;
                body.push(Stmt::Row(vec![Entry::Bits((k - j) as u8, bin(BinOp::Shr, e.clone(), lit(j as i64))), Entry::Bits(j as u8, e), Entry::Lit(i as i64, Radix::Dec), Entry::X]));
            }
        }
        let prog = Program { header, body };
        let text = text(&prog);
        let script = vec![Step::Ans(vec![("Q".into(), V::Num(1))])];
        let r = ref_run_fuel(&prog, &sigs, &script, 100_000, 120);
        assert!(r.end == RefEnd::Done, "wide bits case {k} does not finish in the reference: {:?}", r.end);
        st.evals += 1;
        st.nontrivial += 1;
        st.witness("bits_of_every_width");
        let mut opts = RunOpts::new(r.items.len() + 1);
        opts.repeat_last = true;
        let obs = run_dynamic(&text, &sigs, true, &script, &opts);
        if let Some((i, m)) = run_mismatch(&r, &obs, Proj::ROWS, None) {
            st.violation(&format!("bits(k, e) over many columns: {}", classify(&m)), (12 << 56) + idx, format!("bits({k}, e) over {k} one-bit columns\nprogram:\n{text}first difference at {m} (item {i})"), || dyn_replay(&text, &sigs, true, &script, &opts, ref_items_brief(&r), &obs, &m));
        }
    })
}

/// Rows are evaluated at the moment they are reached: a device that moves on its own between the
/// rows (every answer differs from the one before) against loop / repeat / while bodies whose rows
/// read it without mentioning a counter or a function.
fn moving_device_cases(deadline: &Deadline) -> Stats {
    // (the output n answers 3 at every call: in the enumerated spaces the outputs a, i, n answer 201..203,
    // which puts every bound read from them beyond the reference's budget)
    let sigs = vec![Sig::inp("P0", 16, 0), Sig::inp("P1", 16, 0), Sig::out("Q", 16), Sig::out("R", 16), Sig::out("n", 16)];
    let l = |n: i64| Entry::Lit(n, Radix::Dec);
    let p = |e: Expr| Entry::Paren(e);
    let q = || name("Q");
    let progs: Vec<(&str, Vec<Stmt>)> = vec![
        ("repeat(4) (Q) (Q+1)", vec![Stmt::Repeat(lit(4), vec![p(q()), p(bin(BinOp::Add, q(), lit(1))), Entry::X, Entry::X])]),
        ("one-row loop reading Q", vec![Stmt::Loop("i".into(), lit(3), vec![Stmt::Row(vec![p(q()), l(1), Entry::X, Entry::X])]), Stmt::Row(vec![p(q()), l(2), Entry::X, Entry::X])]),
        ("one-row loop inside a loop", vec![Stmt::Loop("j".into(), lit(2), vec![Stmt::Loop("i".into(), lit(2), vec![Stmt::Row(vec![p(bin(BinOp::Mul, q(), name("R"))), l(3), Entry::X, Entry::X])])])]),
        ("while polling R, one row", vec![Stmt::While(bin(BinOp::Lt, name("R"), lit(4)), vec![Stmt::Row(vec![p(q()), p(name("R")), Entry::X, Entry::X])]), Stmt::Row(vec![l(9), p(q()), Entry::X, Entry::X])]),
        ("repeat with a clock row reading Q", vec![Stmt::Repeat(lit(3), vec![p(q()), Entry::X, Entry::X, Entry::X]), Stmt::Repeat(lit(2), vec![Entry::C, p(q()), Entry::X, Entry::X])]),
        ("repeat bound read from the output n", vec![Stmt::Repeat(name("n"), vec![p(name("n")), l(1), Entry::X, Entry::X]), Stmt::Repeat(bin(BinOp::Sub, name("n"), lit(1)), vec![l(2), p(name("n")), Entry::X, Entry::X])]),
        ("loop bound n+1, repeat(n) inside a loop over n", vec![Stmt::Loop("i".into(), bin(BinOp::Add, name("n"), lit(1)), vec![Stmt::Row(vec![p(name("i")), p(name("n")), Entry::X, Entry::X])]), Stmt::Loop("n".into(), lit(2), vec![Stmt::Repeat(bin(BinOp::Add, name("n"), lit(1)), vec![p(name("n")), l(3), Entry::X, Entry::X])]), Stmt::Row(vec![p(name("n")), l(4), Entry::X, Entry::X])]),
        ("let n after a repeat(n)", vec![Stmt::Repeat(name("n"), vec![l(5), p(name("n")), Entry::X, Entry::X]), Stmt::Let("n".into(), lit(1)), Stmt::Repeat(name("n"), vec![l(6), p(name("n")), Entry::X, Entry::X])]),
        ("let outside, row reads variable and device", vec![Stmt::Let("a".into(), lit(7)), Stmt::Repeat(lit(3), vec![p(bin(BinOp::Add, name("a"), q())), p(name("a")), Entry::X, Entry::X])]),
    ];
    par_range("a device that answers differently at every call x loop / repeat / while bodies of one row that read it", progs.len() as u64 * 2, deadline, |idx, st| {
        let (what, body) = &progs[(idx / 2) as usize];
        let ov = idx % 2 == 0;
        let prog = Program { header: vec!["P0".into(), "P1".into(), "Q".into(), "R".into()], body: body.clone() };
        let text = text(&prog);
        let script: Vec<Step> = (0..40i64).map(|j| Step::Ans(vec![("Q".into(), V::Num(10 + 3 * j)), ("R".into(), V::Num(j)), ("n".into(), V::Num(3))])).collect();
        let r = ref_run_fuel(&prog, &sigs, &script, 10_000, 40);
        assert!(r.end == RefEnd::Done, "moving device case '{what}' does not finish in the reference: {:?}", r.end);
        st.evals += 1;
        st.nontrivial += 1;
        st.witness("device_that_moves_between_the_rows");
        let opts = RunOpts::new(r.items.len() + 1);
        let obs = run_dynamic(&text, &sigs, ov, &script, &opts);
        if let Some((k, m)) = run_mismatch(&r, &obs, Proj::ROWS, None) {
            st.violation(&format!("device moving between the rows: {}", classify(&m)), (13 << 56) + idx, format!("{what}\nprogram:\n{text}the device answers Q = 10, 13, 16, ... and R = 0, 1, 2, ... call by call\nfirst difference at {m} (item {k})"), || dyn_replay(&text, &sigs, ov, &script, &opts, ref_items_brief(&r), &obs, &m));
        }
    })
}

/// The real test programs of the repository's .dig fixtures: parsed by the reference grammar,
/// run by the reference interpreter, compared row by row with the subject. Sources are cut out
/// of the XML by a plain text scan (independent of the subject's .dig loader); the signal list
/// is the loader's (C16 checks the loader).
fn fixtures(deadline: &Deadline) -> Stats {
    let mut cases: Vec<(String, String, Vec<Sig>)> = vec![];
    for f in ["Counter.dig", "74779.dig", "adder.dig", "74162.dig", "74181.dig"] {
        let Ok(doc) = std::fs::read_to_string(format!("/repo/tests/data/{f}")) else { continue };
        let Ok(file) = digital_test_runner::dig::File::parse(&doc) else { continue };
        let sigs: Vec<Sig> = file
            .signals
            .iter()
            .map(|s| Sig {
                name: s.name.clone(),
                bits: s.bits,
                kind: match &s.typ {
                    digital_test_runner::SignalType::Input { default } => Kind::In(V::from(*default)),
                    digital_test_runner::SignalType::Bidirectional { default } => Kind::Bidir(V::from(*default)),
                    _ => Kind::Out,
                },
            })
            .collect();
        let mut rest = doc.as_str();
        let mut n = 0;
        while let Some(a) = rest.find("<dataString>") {
            let Some(b) = rest[a..].find("</dataString>") else { break };
            let raw = &rest[a + 12..a + b];
            let src = raw.replace("&lt;", "<").replace("&gt;", ">").replace("&quot;", "\"").replace("&apos;", "'").replace("&amp;", "&");
            cases.push((format!("{f} test {n}"), src, sigs.clone()));
            n += 1;
            rest = &rest[a + b..];
        }
    }
    par_range("fixture programs (every Testcase of the repository's .dig files), 3 constant device answers", cases.len() as u64 * 3, deadline, |u, st| {
        let (name, src, sigs) = &cases[(u / 3) as usize];
        let val = [0i64, 1, 5][(u % 3) as usize];
        let prog = match crate::refgrammar::parse(src) {
            Ok(p) => p,
            Err(why) => {
                // the reference grammar does not know the statement: only note it
                st.disagreements += 1;
                st.witness("fixture_not_parsed_by_the_reference_grammar");
                let _ = why;
                return;
            }
        };
        if bind_judgement(&prog, sigs).is_err() {
            st.witness("fixture_rejected_by_the_reference_binder");
            return;
        }
        let ans: Answer = sigs.iter().filter(|s| s.is_out()).map(|s| (s.name.clone(), V::Num(val))).collect();
        let script = vec![Step::Ans(ans)];
        let r = ref_run_fuel(&prog, sigs, &script, 200_000, 20_000);
        st.evals += 1;
        if r.end != RefEnd::Done && r.end != RefEnd::Stopped {
            st.out_of_scope += 1;
            return;
        }
        st.nontrivial += 1;
        st.witness("fixture_program_compared");
        let mut opts = RunOpts::new(r.items.len() + 1);
        opts.repeat_last = true;
        opts.budget = 2_000_000;
        let obs = run_dynamic(src, sigs, true, &script, &opts);
        st.steps += obs.items.len() as u64;
        if let Some((_, m)) = run_mismatch(&r, &obs, Proj::ROWS, None) {
            let class = format!("fixture: {}", classify(&m));
            st.violation(&class, (9 << 56) + u, format!("{name}, every output answers {val}\nfirst difference at {m}"), || dyn_replay(src, sigs, true, &script, &opts, ref_items_brief(&r).into_iter().take(40).collect(), &obs, &m));
        }
        if u == 0 {
            st.sample(|| json!({"fixture": name, "rows": r.items.len()}));
        }
    })
}

pub fn run(id: &'static str, tier: Tier, seed: u64) -> i32 {
    let started = Instant::now();
    let c18 = id == "C18";
    let deadline = Deadline::new(tier.wall_cap());
    let lists = signal_lists();
    let header: Vec<String> = HEADER.iter().map(|s| s.to_string()).collect();
    let (atoms, blocks) = alphabet(c18, false);
    let mk = |k| ForestSpace::new(atoms.clone(), blocks.clone(), 3, k);
    let mut plans: Vec<Plan> = vec![];
    for k in 1..=3 {
        plans.push(Plan { space: mk(k), k, with_q: true, lists: vec![0, 1, 2], label: format!("K={k} full alphabet, 3 signal lists, device-read bounds") });
    }
    {
        // deep nesting (up to 5 levels) over a small alphabet
        let add = |a: Expr, b: Expr| bin(BinOp::Add, a, b);
        let datoms = vec![Stmt::Row(row()), Stmt::Let("a".into(), add(name("a"), lit(1))), Stmt::Let("n".into(), name("i"))];
        let dblocks = vec![Block::Loop("i".into(), lit(2)), Block::Loop("a".into(), lit(1)), Block::Loop("n".into(), name("n")), Block::While(bin(BinOp::Lt, name("a"), lit(203)))];
        let kk = tier.pick(5, 7);
        plans.push(Plan { space: ForestSpace::new(datoms, dblocks, 5, kk), k: kk, with_q: false, lists: vec![0], label: format!("K={kk} nesting up to 5 over a small alphabet (row, two lets, three loops, one while)") });
    }
    match tier {
        Tier::Quick => {
            if !c18 {
                plans.push(Plan { space: mk(4), k: 4, with_q: false, lists: vec![0], label: "K=4 full alphabet without device reads, signal list 0".into() });
            } else {
                let (ra, rb) = alphabet(true, true);
                plans.push(Plan { space: ForestSpace::new(ra, rb, 3, 4), k: 4, with_q: false, lists: vec![0], label: "K=4 reduced alphabet, signal list 0".into() });
            }
        }
        Tier::Thorough => {
            plans.push(Plan { space: mk(4), k: 4, with_q: true, lists: vec![0], label: "K=4 full alphabet, signal list 0, device-read bounds".into() });
            let (ra, rb) = alphabet(c18, true);
            plans.push(Plan { space: ForestSpace::new(ra, rb, 3, 5), k: 5, with_q: false, lists: vec![0, 1], label: "K=5 reduced alphabet, signal lists 0,1".into() });
        }
    }
    let proj = if c18 {
        Proj { input_values: true, expected: false, output: false, checked_kind: false, lines: false, vars: true, verdicts: false }
    } else {
        Proj::ROWS
    };

    let answers: Vec<Vec<Answer>> = lists.iter().map(|sigs| (0..3).map(|q| answer(sigs, q)).collect()).collect();
    let mut total = Stats::default();
    for plan in &plans {
        let n = plan.space.count(plan.k);
        let st = par_range(&plan.label, n, &deadline, |idx, st| {
            let body = plan.space.unrank(plan.k, idx);
            let uses_q = mentions(&body, "Q");
            if uses_q && !plan.with_q {
                return;
            }
            let prog = Program { header: header.clone(), body };
            let text = text(&prog);
            let structured = prog.body.iter().any(|s| !matches!(s, Stmt::Row(_)));
            for &li in &plan.lists {
                let sigs = &lists[li];
                // parse + bind once per (program, signal list)
                let tc = load(&text, sigs, DEFAULT_BUDGET);
                // Depth-first over the device's answer history: the answer of call j (j < 4)
                // ranges over {0,1,2} whenever the reference actually makes call j; later calls
                // repeat the last answer. Programs that never read Q need one history.
                let mut stack: Vec<Vec<i64>> = if uses_q { vec![vec![2], vec![1], vec![0]] } else { vec![vec![0]] };
                let mut sc = 0u64;
                while let Some(qs) = stack.pop() {
                    let script: Vec<Step> = qs.iter().map(|&q| Step::Ans(answers[li][q as usize].clone())).collect();
                    let r = ref_run_repeat(&prog, sigs, &script);
                    if uses_q && qs.len() < 4 && r.calls > qs.len() && r.end != RefEnd::Fuel {
                        // call number qs.len() happens: its answer is a further choice
                        for q in (0..3).rev() {
                            let mut n = qs.clone();
                            n.push(q);
                            stack.push(n);
                        }
                        continue;
                    }
                    sc += 1;
                    st.evals += 1;
                    if r.end == RefEnd::Fuel {
                        st.out_of_scope += 1;
                        continue;
                    }
                    for e in &r.events {
                        st.witness(e);
                    }
                    if uses_q {
                        st.witness("bound_or_value_read_from_device");
                    }
                    if li != 0 {
                        st.witness("permuted_or_bidirectional_signal_list");
                    }
                    let mut opts = RunOpts::new(r.items.len() + 1);
                    opts.after_end = 1;
                    opts.repeat_last = true;
                    opts.collect_vars = c18;
                    let obs = match &tc {
                        Ok(tc) => run_loaded(tc, sigs, true, &script, &opts),
                        Err(init) => Obs { init: init.clone(), items: vec![], calls_after: vec![], log: vec![], exhausted: false, vars: vec![], key: None, draws: vec![], signal_names: vec![], vars_panic: None },
                    };
                    st.steps += obs.items.len() as u64;
                    if structured && r.items.iter().any(|i| matches!(i, RefItem::Row(_))) {
                        st.nontrivial += 1;
                    }
                    st.outcome(&obs.items);
                    if structured && r.items.len() >= 3 && (uses_q || idx % 97 == 5) {
                        st.sample(|| json!({"program": text, "signal_list": li, "device_Q_answers": qs, "reference_items": ref_items_brief(&r)}));
                    }
                    if let Some((k, m)) = run_mismatch(&r, &obs, proj, None) {
                        let class = classify(&m);
                        let order = (plan.k as u64) << 56 | idx.min((1 << 40) - 1) << 12 | (li as u64) << 8 | sc.min(255);
                        let summary = format!("program:\n{text}signal list {li}, device answers Q={qs:?}\nfirst difference at {m}\n(item index {k})");
                        st.violation(&class, order, summary, || dyn_replay(&text, sigs, true, &script, &opts, ref_items_brief(&r), &obs, &m));
                    }
                }
            }
        });
        total.merge(st);
    }
    let _ = Step::Fault(0);
    if !c18 {
        total.merge(fixtures(&deadline));
        total.merge(large_cases(&deadline));
        total.merge(wide_bits_cases(&deadline));
        total.merge(moving_device_cases(&deadline));
    }
    if c18 {
        // far beyond the enumerated scope: 30 variables, six of them shadowed at two levels
        let sigs = vec![Sig::inp("P0", 16, 0), Sig::inp("P1", 16, 0), Sig::out("Q", 16)];
        let mut body: Vec<Stmt> = (0..30).map(|j| Stmt::Let(format!("OP{j:02}"), lit(100 + j))).collect();
        let rowv = |a: &str, b: &str| Stmt::Row(vec![Entry::Paren(name(a)), Entry::Paren(name(b)), Entry::X]);
        body.push(Stmt::Loop("OP17".into(), lit(2), vec![Stmt::Let("OP03".into(), lit(5)), rowv("OP17", "OP03"), Stmt::Loop("OP29".into(), lit(2), vec![Stmt::Let("OP17".into(), lit(9)), Stmt::Let("OP00".into(), name("OP29")), rowv("OP17", "OP00")]), rowv("OP17", "OP29")]));
        body.push(rowv("OP17", "OP03"));
        let prog = Program { header: vec!["P0".into(), "P1".into(), "Q".into()], body };
        let text = text(&prog);
        let script = vec![Step::Ans(vec![("Q".into(), V::Num(1))])];
        let r = ref_run_fuel(&prog, &sigs, &script, 10_000, 100);
        let mut opts = RunOpts::new(r.items.len() + 1);
        opts.repeat_last = true;
        opts.collect_vars = true;
        let obs = run_dynamic(&text, &sigs, true, &script, &opts);
        total.evals += 1;
        total.nontrivial += 1;
        total.witness("thirty_variables_six_shadowed");
        if let Some((k, m)) = run_mismatch(&r, &obs, proj, None) {
            total.violation(&format!("large scale: {}", classify(&m)), 11 << 56, format!("30 variables, loops shadowing OP17, OP03, OP29, OP00\nfirst difference at {m} (item {k})"), || dyn_replay(&text, &sigs, true, &script, &opts, ref_items_brief(&r), &obs, &m));
        }
    }
    if c18 {
        // far beyond the enumerated scope: loops nested 6..14 deep, a row behind every inner loop, the
        // deepest counters re-using names of enclosing ones (k3 again at depth 10, k8 at depth 12)
        let sigs = vec![Sig::inp("P0", 16, 0), Sig::inp("P1", 16, 0), Sig::out("Q", 16)];
        for depth in [6usize, 8, 9, 10, 12, 14] {
            let cname = |d: usize| match d {
                10 => "k3".to_string(),
                12 => "k8".to_string(),
                _ => format!("k{d}"),
            };
            let rowv = |a: String, b: String| Stmt::Row(vec![Entry::Paren(name(&a)), Entry::Paren(name(&b)), Entry::X]);
            let mut inner: Vec<Stmt> = vec![Stmt::Let("deep".into(), lit(depth as i64)), rowv(cname(depth - 1), "deep".into())];
            for d in (0..depth).rev() {
                let mut b = vec![Stmt::Let(format!("v{d}"), lit(d as i64 * 10))];
                b.push(Stmt::Loop(cname(d), lit(if d == 5 { 2 } else { 1 }), inner));
                // behind the inner loop: its counter and lets are gone, what they shadowed is back
                b.push(rowv(format!("v{d}"), if d > 0 { cname(d - 1) } else { "v0".to_string() }));
                inner = b;
            }
            let prog = Program { header: vec!["P0".into(), "P1".into(), "Q".into()], body: inner };
            let text = text(&prog);
            let script = vec![Step::Ans(vec![("Q".into(), V::Num(1))])];
            let r = ref_run_fuel(&prog, &sigs, &script, 20_000, 100);
            assert!(r.end == RefEnd::Done, "C18 deep nest {depth}: {:?}", r.end);
            let mut opts = RunOpts::new(r.items.len() + 1);
            opts.repeat_last = true;
            opts.collect_vars = true;
            let obs = run_dynamic(&text, &sigs, true, &script, &opts);
            total.evals += 1;
            total.nontrivial += 1;
            total.witness("loops_nested_more_than_eight_deep");
            if let Some((k, m)) = run_mismatch(&r, &obs, proj, None) {
                total.violation(&format!("large scale: {}", classify(&m)), (11 << 56) + depth as u64, format!("loops nested {depth} deep\nprogram:\n{text}first difference at {m} (item {k})"), || dyn_replay(&text, &sigs, true, &script, &opts, ref_items_brief(&r), &obs, &m));
            }
        }
    }
    {
        // an iterator is Send: created and advanced j times on one thread, it carries on on another;
        // rows and vars() are those of a run on a single thread
        let (ra, rb) = alphabet(c18, true);
        let sigs = &lists[0];
        for k in 1..=3 {
            let sp = ForestSpace::new(ra.clone(), rb.clone(), 3, k);
            let st = par_range(&format!("iterator moved to another thread after j = 0..3 calls: programs with {k} statements of the reduced alphabet"), sp.count(k), &deadline, |idx, st| {
                let prog = Program { header: header.clone(), body: sp.unrank(k, idx) };
                let text = text(&prog);
                let Ok(tc) = load(&text, sigs, DEFAULT_BUDGET) else { return };
                let r = ref_run_repeat(&prog, sigs, &[Step::Ans(answer(sigs, 1))]);
                if r.end != RefEnd::Done || r.items.len() > 30 {
                    return;
                }
                let total_calls = r.items.len() + 1;
                let ans = answer(sigs, 1);
                let single = run_across_threads(&tc, &ans, total_calls, total_calls);
                for j in 0..=3usize.min(total_calls - 1) {
                    st.evals += 1;
                    st.nontrivial += 1;
                    st.witness("iterator_moved_to_another_thread");
                    let moved = run_across_threads(&tc, &ans, j, total_calls);
                    if moved != single {
                        let pos = moved.iter().zip(single.iter()).position(|(a, b)| a != b).unwrap_or(moved.len().min(single.len()));
                        st.violation(if c18 { "vars" } else { "rows differ after the iterator moved to another thread" }, (12 << 56) + (idx << 4) + j as u64, format!("program:\n{text}the iterator is moved to another thread after {j} calls of next()\ncall {pos}: {}\non a single thread: {}", moved.get(pos).cloned().unwrap_or_default(), single.get(pos).cloned().unwrap_or_default()), || json!({"kind": "threads", "text": text, "signals": sigs_json(sigs), "moved_after": j, "calls": total_calls, "expected": single, "observed": moved}));
                        return;
                    }
                }
            });
            total.merge(st);
        }
    }
    {
        // (C18: vars(); C01: the rows) when the caller carries on after an error item (a virtual
        // signal that fails for one particular answer): explicit-state exploration over the answers
        use crate::e1::*;
        let sigs = vec![Sig::inp("P0", 16, 0), Sig::inp("P1", 16, 0), Sig::out("Q", 16), Sig::out("i", 16)];
        let rowv = |e: Expr| Stmt::Row(vec![Entry::Paren(e), Entry::Lit(0, Radix::Dec), Entry::X]);
        // rowv(8 / Q) cannot be evaluated when the device answers Q = 0: an error item without a call
        let atoms = vec![
            rowv(name("i")),
            rowv(lit(1)),
            rowv(bin(BinOp::Div, lit(8), name("Q"))),
            Stmt::Row(vec![Entry::Paren(name("i")), Entry::Paren(bin(BinOp::Rem, lit(9), name("Q"))), Entry::X]),
            Stmt::Let("k".into(), lit(7)),
            Stmt::Let("i".into(), lit(5)),
            // a variable named like an output, given a value the device may be showing at that moment
            Stmt::Let("Q".into(), lit(2)),
            rowv(name("Q")),
            Stmt::Repeat(lit(2), vec![Entry::Paren(name("n")), Entry::Lit(0, Radix::Dec), Entry::X]),
        ];
        // the bounds 8 / Q and the let fail when the device answers Q = 0: one error item, statement skipped
        let atoms = {
            let mut a = atoms;
            a.push(Stmt::Let("k".into(), bin(BinOp::Div, lit(8), name("Q"))));
            a.push(Stmt::Repeat(bin(BinOp::Div, lit(2), name("Q")), vec![Entry::Paren(name("n")), Entry::Lit(0, Radix::Dec), Entry::X]));
            a
        };
        let blocks = vec![Block::Loop("i".into(), lit(2)), Block::Loop("k".into(), lit(1)), Block::Loop("m".into(), bin(BinOp::Div, lit(4), name("Q")))];
        let menu = vec![MenuItem::ans(vec![("Q".into(), V::Num(0)), ("i".into(), V::Num(202))]), MenuItem::ans(vec![("Q".into(), V::Num(2)), ("i".into(), V::Num(202))])];
        let mut cases = vec![];
        for k in 1..=3 {
            let sp = ForestSpace::new(atoms.clone(), blocks.clone(), 2, k);
            for idx in 0..sp.count(k) {
                let mut body = vec![Stmt::Declare("V".into(), bin(BinOp::Div, lit(8), name("Q")))];
                body.extend(sp.unrank(k, idx));
                let prog = Program { header: vec!["P0".into(), "P1".into(), "Q".into()], body };
                if !crate::model::lines(&prog).iter().any(|l| l.row.is_some()) {
                    continue;
                }
                let mut c = Case::new(&format!("continue after a failing virtual signal, K={k} #{idx}"), prog, sigs.clone(), true, menu.clone(), menu.clone(), 14);
                c.continue_after_call_errors = true;
                c.continue_after_row_errors = true;
                c.collect_vars = true;
                cases.push(c);
            }
        }
        let oracle: Oracle = std::sync::Arc::new(|seen: &Seen<'_>, st: &mut Stats| {
            let k = seen.item?;
            let (Some(ri), Some(oi)) = (seen.reference.items.get(k), seen.obs.items.get(k)) else { return None };
            if matches!(ri, RefItem::VirtErr(_)) {
                st.witness("error_item_then_caller_carries_on");
            }
            let proj = Proj { input_values: true, expected: false, output: false, checked_kind: false, lines: false, vars: true, verdicts: false };
            // What happens after an expression error is not laid down (an iterator may also stop
            // there): once one has occurred, only rows that ARE yielded are compared
            let after_expr_error = seen.reference.items[..k].iter().any(|i| matches!(i, RefItem::ExprErr(_)));
            if after_expr_error {
                st.witness("row_after_an_expression_error_item");
                if !oi.is_row() {
                    return None;
                }
            }
            item_mismatch(ri, oi, proj, None, seen.obs.vars.get(k)).map(|m| (classify(&m), format!("first difference at item {k}: {m}")))
        });
        let res = explore(cases, oracle, true, &deadline);
        let mut st = res.stats;
        if !c18 {
            // vars() is C18's: keep only what concerns the rows
            st.violations.retain(|k, _| k != "vars");
        }
        st.extra.insert("e1_part_states".into(), json!(st.states));
        st.extra.insert("e1_part_transitions".into(), json!(st.transitions));
        st.states = 0;
        st.transitions = 0;
        st.traces = 0;
        total.merge(st);
    }
    let required: Vec<&'static str> = vec![
        "loop_bound_zero",
        "loop_bound_negative",
        "loop_bound_computed",
        "bound_or_value_read_from_device",
        "while_ran_0",
        "while_ran_1",
        "while_ran_2plus",
        "nesting_3",
        "shadow",
        "uncover",
        "let_in_loop",
        "while_in_loop",
        "bits_row",
        "repeat",
        "permuted_or_bidirectional_signal_list",
    ];
    let mut required = required;
    required.push("error_item_then_caller_carries_on");
    required.push("iterator_moved_to_another_thread");
    if c18 {
        required.push("thirty_variables_six_shadowed");
    }
    required.push("row_after_an_expression_error_item");
    let meta = CheckMeta {
        id,
        tier,
        seed,
        rule: "every forest of K statement nodes (nesting <= 3) over the alphabet is unranked from its index exactly once (injective by construction); for programs that mention the device output Q every answer history in {0,1,2}^4 is run; a case (program, signal list, answer history) is non-trivial if the program has a let/loop/repeat/while and the reference yields at least one row".into(),
        assumptions: vec![
            "reference interpreter refsem.rs (written from the property statements) is the oracle".into(),
            "programs whose reference run exceeds 40 rows / 600 steps are out of scope (non-terminating or long)".into(),
            "values stay below 2^16 so width masking (C07) is the identity here".into(),
        ],
        required_witnesses: required,
        exhaustive_note: "all programs of the listed spaces, all signal lists listed, all device answer histories listed".into(),
        e1: false,
    };
    total.merge(crate::props::c13::api_use_part(&deadline));
    finish(meta, total, started)
}

pub fn replay_threads(j: &serde_json::Value) -> Vec<String> {
    let sigs: Vec<Sig> = j["signals"].as_array().map(|a| a.iter().filter_map(|s| s.as_str().and_then(Sig::parse)).collect()).unwrap_or_default();
    match load(j["text"].as_str().unwrap_or(""), &sigs, DEFAULT_BUDGET) {
        Ok(tc) => run_across_threads(&tc, &answer(&sigs, 1), j["moved_after"].as_u64().unwrap_or(0) as usize, j["calls"].as_u64().unwrap_or(1) as usize),
        Err(e) => vec![format!("{e:?}")],
    }
}
