//! C15 — deterministic and re-runnable; static iteration equals any dynamic run
//! (DESIGN §6/C15). Three parts: (1) every drain order of the parser's three hash maps
//! (hook H3) gives equal tests; (2) explicit-state exploration (stateright) of all
//! interleavings of several iterators over one test; (3) try_iter_static succeeds iff the
//! program reads no outputs, and then equals every dynamic run.

use crate::driver::*;
use crate::engine::*;
use crate::model::*;
use crate::props::c01;
use crate::props::util::*;
use crate::refsem::*;
use crate::space::*;
use crate::subject::*;
use digital_test_runner as dtr;
use digital_test_runner::verif_hooks as hooks;
use serde_json::json;
use stateright::{Checker, Model, Property};
use std::hash::{Hash, Hasher};
use std::str::FromStr;
use std::sync::{Arc, Mutex};
use std::time::Instant;

// ---------------------------------------------------------------------------------------
// part 1: hash map drain orders

fn part1_programs() -> Vec<(String, Vec<Sig>, Vec<Vec<Sig>>)> {
    // header: three clockable inputs, three outputs, virtual columns
    let good = vec![Sig::inp("C1", 1, 0), Sig::inp("C2", 1, 0), Sig::inp("C3", 1, 0), Sig::out("R1", 8), Sig::out("R2", 8), Sig::out("R3", 8)];
    let mut bad_c = good.clone();
    bad_c[1] = Sig::out("C2", 1);
    bad_c[2] = Sig::out("C3", 1);
    let mut bad_r = good.clone();
    bad_r[3] = Sig::inp("R1", 8, 0);
    bad_r[5] = Sig::inp("R3", 8, 0);
    let mut out = vec![];
    let perms = [[0usize, 1, 2], [0, 2, 1], [1, 0, 2], [1, 2, 0], [2, 0, 1], [2, 1, 0]];
    for (pi, p) in perms.iter().enumerate() {
        // first occurrences of the C columns, the read outputs and the declarations in permuted order
        let mut text = String::from("C1 C2 C3 R1 R2 R3 V1 V2 V3\n");
        for &c in p {
            let mut row = vec!["0"; 9];
            row[c] = "C";
            for j in 3..9 {
                row[j] = "X";
            }
            text.push_str(&row.join(" "));
            text.push('\n');
        }
        let names = ["R1", "R2", "R3"];
        for &r in p {
            text.push_str(&format!("let t{r} = {} + 1 ;\n", names[r]));
        }
        for &v in &perms[(pi + 3) % 6] {
            text.push_str(&format!("declare V{} = {} * {} ;\n", v + 1, names[v], v + 2));
        }
        text.push_str("0 0 0 1 2 3 X 4 X\nC C C X X X 2 X 6\n( t0 ) ( t1 ) ( t2 ) X X X X X X\n");
        out.push((text, good.clone(), vec![bad_c.clone(), bad_r.clone()]));
    }
    // four declarations, four clock columns, four read outputs: 24 orders each, one map at a time
    out.push((
        "C1 C2 C3 C4 R1 R2 R3 R4\nC 0 0 0 X X X X\n0 0 0 C X X X X\n0 C 0 0 X X X X\n0 0 C 0 X X X X\nlet t = R3 + R1 + R4 + R2 ;\ndeclare W4 = R4 ;\ndeclare W2 = R2 ;\ndeclare W1 = R1 ;\ndeclare W3 = R3 ;\nC C C C 1 2 3 4\n".into(),
        vec![Sig::inp("C1", 1, 0), Sig::inp("C2", 1, 0), Sig::inp("C3", 1, 0), Sig::inp("C4", 1, 0), Sig::out("R1", 8), Sig::out("R2", 8), Sig::out("R3", 8), Sig::out("R4", 8)],
        vec![],
    ));
    // fewer items per map
    out.push(("C1 R1 V1\ndeclare V1 = R1 ;\nC X X\n( R1 ) 1 1\n".into(), vec![Sig::inp("C1", 1, 0), Sig::out("R1", 8)], vec![]));
    out.push(("C1 C2 R1 R2\nC C ( R2 ) ( R1 )\ndeclare W = R2 - R1 ;\ndeclare U = R1 ;\n0 0 1 1\n".into(), vec![Sig::inp("C1", 1, 0), Sig::inp("C2", 1, 0), Sig::out("R1", 8), Sig::out("R2", 8)], vec![]));
    out
}

fn fact(n: usize) -> usize {
    (1..=n).product::<usize>().max(1)
}

fn stream(tc: &dtr::TestCase, sigs: &[Sig]) -> Vec<String> {
    let answer: Answer = sigs.iter().filter(|s| s.is_out()).map(|s| (s.name.clone(), V::Num(s.name.len() as i64 + s.name.bytes().last().unwrap() as i64 % 5))).collect();
    let script = vec![Step::Ans(answer)];
    let mut opts = RunOpts::new(40);
    opts.repeat_last = true;
    let o = run_loaded(tc, sigs, true, &script, &opts);
    let mut v = vec![format!("signals: {:?}", o.signal_names), o.init.brief()];
    v.extend(o.items.iter().map(|i| i.brief()));
    v
}

fn part1(st: &mut Stats) {
    for (text, good, bads) in part1_programs() {
        // how many items does each map hold? (from the identity parse)
        hooks::set_map_order(0, 0);
        hooks::set_map_order(1, 0);
        hooks::set_map_order(2, 0);
        let base = match dtr::ParsedTestCase::from_str(&text) {
            Ok(p) => p,
            Err(e) => {
                st.violation("part 1 program does not parse", 0, format!("{text}\n{}", miette_chain(&e)), || json!({"kind": "parse", "text": text, "expected": ["accepted"], "observed": ["rejected"]}));
                continue;
            }
        };
        let sizes: Vec<usize> = (0..3).map(|w| hooks::raw_map_order(w).len()).collect();
        let base_tc = base.clone().with_signals(good.iter().map(|s| s.to_real()).collect());
        let base_stream = base_tc.as_ref().ok().map(|tc| stream(tc, &good));
        let base_errs: Vec<String> = bads.iter().map(|b| match base.clone().with_signals(b.iter().map(|s| s.to_real()).collect()) {
            Ok(_) => "accepted".to_string(),
            Err(e) => miette_chain(&e),
        }).collect();
        let (f0, f1, f2) = (fact(sizes[0]), fact(sizes[1]), fact(sizes[2]));
        // with four items per map the full product (24^3) is replaced by one map at a time
        let product = f0 * f1 * f2 <= 216;
        st.space("part 1: (program, drain order of the three hash maps) combinations", if product { (f0 * f1 * f2) as u64 } else { (f0 + f1 + f2) as u64 });
        for a in 0..f0 {
            for b in 0..f1 {
                for c in 0..f2 {
                    if !product && (a > 0) as u8 + (b > 0) as u8 + (c > 0) as u8 > 1 {
                        continue;
                    }
                    hooks::set_map_order(0, a);
                    hooks::set_map_order(1, b);
                    hooks::set_map_order(2, c);
                    st.evals += 1;
                    if a + b + c > 0 {
                        st.nontrivial += 1;
                        st.witness("non_identity_hash_map_order");
                    }
                    let p = dtr::ParsedTestCase::from_str(&text);
                    let order = (a * 100 + b * 10 + c) as u64;
                    let replay = |obs: String| json!({"kind": "maporder", "text": text, "signals": sigs_json(&good), "order": [a, b, c], "expected": ["equal to the parse under the identity order"], "observed": [obs]});
                    let Ok(p) = p else {
                        st.violation("parse verdict depends on hash map order", order, format!("{text}\norders ({a},{b},{c}): rejected"), || replay("rejected".into()));
                        continue;
                    };
                    if p != base {
                        st.violation("ParsedTestCase differs between parses", order, format!("{text}\nhash map drain orders ({a},{b},{c}): the parsed test is not equal to the one parsed under the identity order\nsignals: {:?}", p.signals), || replay("parsed tests differ".into()));
                        continue;
                    }
                    let tc = p.clone().with_signals(good.iter().map(|s| s.to_real()).collect());
                    match (&tc, &base_tc) {
                        (Ok(x), Ok(y)) => {
                            if x != y {
                                st.violation("TestCase differs between parses", order, format!("{text}\norders ({a},{b},{c}): bound tests differ; signals {:?} vs {:?}", x.signals.iter().map(|s| &s.name).collect::<Vec<_>>(), y.signals.iter().map(|s| &s.name).collect::<Vec<_>>()), || replay("bound tests differ".into()));
                                continue;
                            }
                            let s = stream(x, &good);
                            if Some(&s) != base_stream.as_ref() {
                                st.violation("rows differ between parses", order, format!("{text}\norders ({a},{b},{c}): row streams differ"), || replay("row streams differ".into()));
                            }
                        }
                        (Err(_), Err(_)) => {}
                        _ => st.violation("binding verdict depends on hash map order", order, format!("{text}\norders ({a},{b},{c})"), || replay("binding verdict differs".into())),
                    }
                    for (bi, bsig) in bads.iter().enumerate() {
                        let e = match p.clone().with_signals(bsig.iter().map(|s| s.to_real()).collect()) {
                            Ok(_) => "accepted".to_string(),
                            Err(e) => miette_chain(&e),
                        };
                        if e != base_errs[bi] {
                            st.violation("binding error depends on hash map order", order, format!("{text}\norders ({a},{b},{c}): error {e:?} vs {:?}", base_errs[bi]), || replay(e.clone()));
                        }
                        st.witness("binding_error_compared");
                    }
                }
            }
        }
    }
    hooks::set_map_order(0, 0);
    hooks::set_map_order(1, 0);
    hooks::set_map_order(2, 0);
    // part 1b: the .dig loader walks a hash set of bidirectional names: every order gives the same file
    {
        use crate::digxml::{Pin, PinKind, TestDesc};
        let pins = vec![Pin::new(PinKind::In, "A").bits("4"), Pin::new(PinKind::Out, "Q").bits("4"), Pin::new(PinKind::In, "B"), Pin::new(PinKind::In, "C").bits("2"), Pin::new(PinKind::In, "D")];
        let tests = vec![
            TestDesc { label: Some("t".into()), source: "A A_out B B_out C C_out Q\n1 X 0 1 Z 2 3\nZ 5 1 X 1 X X\n".into(), extra: vec![] },
            TestDesc { label: Some("u".into()), source: "D_out B_out A\n1 0 3\n".into(), extra: vec![] },
        ];
        let doc = crate::digxml::render(&pins, &tests);
        hooks::set_map_order(3, 0);
        let describe = |f: &dtr::dig::File| -> Vec<String> {
            let mut v: Vec<String> = f.signals.iter().map(|s| format!("{s}")).collect();
            for i in 0..f.test_cases.len() {
                match f.load_test(i) {
                    Ok(tc) => {
                        let sigs: Vec<Sig> = tc
                            .signals
                            .iter()
                            .map(|s| Sig {
                                name: s.name.clone(),
                                bits: s.bits,
                                kind: match &s.typ {
                                    dtr::SignalType::Input { default } => Kind::In(V::from(*default)),
                                    dtr::SignalType::Bidirectional { default } => Kind::Bidir(V::from(*default)),
                                    _ => Kind::Out,
                                },
                            })
                            .collect();
                        v.extend(stream(&tc, &sigs));
                    }
                    Err(e) => v.push(miette_chain(&e)),
                }
            }
            v
        };
        match dtr::dig::File::parse(&doc) {
            Err(e) => st.violation("part 1b document does not load", 0, miette_chain(&e), || json!({"kind": "dig", "document": doc, "expected": ["loads"], "observed": ["rejected"]})),
            Ok(base) => {
                let base_tc: Vec<_> = (0..2).map(|i| base.load_test(i).ok()).collect();
                let base_desc = describe(&base);
                let n = hooks::raw_map_order(3).len();
                st.space("part 1b: orders of the .dig loader's set of bidirectional names", fact(n) as u64);
                for o in 0..fact(n) {
                    hooks::set_map_order(3, o);
                    st.evals += 1;
                    if o > 0 {
                        st.nontrivial += 1;
                        st.witness("non_identity_order_in_the_dig_loader");
                    }
                    let f = dtr::dig::File::parse(&doc);
                    let same = match &f {
                        Ok(f) => f.signals == base.signals && (0..2).map(|i| f.load_test(i).ok()).collect::<Vec<_>>() == base_tc && describe(f) == base_desc,
                        Err(_) => false,
                    };
                    if !same {
                        let got = f.as_ref().map(|f| f.signals.iter().map(|s| format!("{s}")).collect::<Vec<_>>()).unwrap_or_default();
                        st.violation("loading a .dig document depends on hash set order", o as u64, format!("walking the set of bidirectional names in order #{o} gives signals {got:?}\nidentity order: {:?}", base.signals.iter().map(|s| format!("{s}")).collect::<Vec<_>>()), || json!({"kind": "digorder", "document": doc, "order": o, "expected": ["equal to loading under the identity order"], "observed": ["differs"]}));
                    }
                }
                hooks::set_map_order(3, 0);
            }
        }
    }
    // the seam sits where real nondeterminism enters: the raw drain order of the real HashMap varies
    let text = &part1_programs()[0].0;
    let mut raw = std::collections::HashSet::new();
    for _ in 0..200 {
        let _ = dtr::ParsedTestCase::from_str(text);
        raw.insert((hooks::raw_map_order(0), hooks::raw_map_order(1), hooks::raw_map_order(2)));
    }
    st.extra.insert("distinct_raw_hash_map_orders_seen_in_200_parses".into(), json!(raw.len()));
    if raw.len() > 1 {
        st.witness("real_hash_map_order_varies_under_the_seam");
    }
}

// ---------------------------------------------------------------------------------------
// part 2: interleaved iterators (stateright model M2)

#[derive(Clone, Debug, PartialEq, Eq, Hash)]
enum Act2 {
    Step(u8),
    Restart(u8),
    Vars(u8),
}

#[derive(Clone, Debug)]
struct St2 {
    prog: u16,
    schedule: Vec<Act2>,
    pos: Vec<u8>,
    restarted: Vec<bool>,
    /// include the schedule in the identity (stateless mode)
    salt: u64,
}
impl PartialEq for St2 {
    fn eq(&self, o: &St2) -> bool {
        self.prog == o.prog && self.pos == o.pos && self.restarted == o.restarted && self.salt == o.salt
    }
}
impl Eq for St2 {}
impl Hash for St2 {
    fn hash<H: Hasher>(&self, h: &mut H) {
        (self.prog, &self.pos, &self.restarted, self.salt).hash(h)
    }
}

struct Prog2 {
    text: String,
    sigs: Vec<Sig>,
    tc: dtr::TestCase,
    solo: Vec<ObsItem>,
    solo_vars: Vec<Option<Vec<(String, i64)>>>,
}

struct M2 {
    progs: Arc<Vec<Prog2>>,
    k: usize,
    merge: bool,
    stats: Arc<Mutex<Stats>>,
}

fn script_for(sigs: &[Sig], n: usize) -> Vec<Step> {
    // the same function of the call index for every driver
    (0..n).map(|c| Step::Ans(sigs.iter().filter(|s| s.is_out()).map(|s| (s.name.clone(), V::Num(((c * 7 + s.name.len()) % 3) as i64))).collect())).collect()
}

/// Replay a schedule on fresh iterators; returns the item / vars produced by its last action
fn replay_schedule(p: &Prog2, k: usize, schedule: &[Act2]) -> (Option<ObsItem>, Option<Vec<(String, i64)>>) {
    let script = script_for(&p.sigs, 64);
    // drivers are created before the iterators that borrow them (and so dropped after them)
    let mut drivers: Vec<ScriptDriver<'_, true>> = (0..k).map(|_| ScriptDriver::<true>::new(&p.sigs, &script)).collect();
    let mut fresh: Vec<ScriptDriver<'_, true>> = (0..k).map(|_| ScriptDriver::<true>::new(&p.sigs, &script)).collect();
    hooks::set_seed_override(Some(5));
    let mut last = (None, None);
    let r = guard(DEFAULT_BUDGET, || {
        // iterators borrow their drivers mutably: split the vector
        let mut iters: Vec<Option<dtr::DataRowIterator<'_, '_, ScriptDriver<'_, true>>>> = vec![];
        let mut slots: Vec<&mut ScriptDriver<'_, true>> = drivers.iter_mut().collect();
        let mut spare: Vec<Option<&mut ScriptDriver<'_, true>>> = vec![];
        for d in slots.drain(..) {
            spare.push(Some(d));
        }
        for s in spare.iter_mut() {
            let d = s.take().unwrap();
            iters.push(p.tc.try_iter(d).ok());
        }
        let mut fresh_refs: Vec<Option<&mut ScriptDriver<'_, true>>> = fresh.iter_mut().map(Some).collect();
        let mut out = (None, None);
        for a in schedule {
            out = (None, None);
            match a {
                Act2::Step(j) => {
                    if let Some(it) = iters[*j as usize].as_mut() {
                        let item = match it.next() {
                            None => ObsItem::End,
                            Some(Ok(row)) => ObsItem::Row(ObsRow {
                                line: row.line,
                                inputs: row.inputs.iter().map(|i| (i.signal.name.clone(), V::from(i.value), i.changed)).collect(),
                                outputs: row
                                    .outputs
                                    .iter()
                                    .map(|o| ObsOut { name: o.signal.name.clone(), bits: o.signal.bits, output: V::from(o.output), expected: V::from(o.expected), check: o.check(), is_checked: o.is_checked(), failing: !o.check(), is_virtual: false, value_check: (o.check(), o.check()) })
                                    .collect(),
                            }),
                            Some(Err(e)) => ObsItem::Runtime(miette_chain(&e)),
                        };
                        out.0 = Some(item);
                    }
                }
                Act2::Vars(j) => {
                    if let Some(it) = iters[*j as usize].as_ref() {
                        let mut v: Vec<(String, i64)> = it.vars().into_iter().collect();
                        v.sort();
                        out.1 = Some(v);
                    }
                }
                Act2::Restart(j) => {
                    iters[*j as usize] = None;
                    if let Some(d) = fresh_refs[*j as usize].take() {
                        iters[*j as usize] = p.tc.try_iter(d).ok();
                    }
                }
            }
        }
        out
    });
    hooks::set_seed_override(None);
    let _ = hooks::take_draw_log();
    match r {
        Ok(o) => last = o,
        Err(Caught::Panic(s)) => last.0 = Some(ObsItem::Panic(s)),
        Err(Caught::Watchdog) => last.0 = Some(ObsItem::Watchdog),
    }
    last
}

impl Model for M2 {
    type State = St2;
    type Action = Act2;
    fn init_states(&self) -> Vec<St2> {
        (0..self.progs.len()).map(|p| St2 { prog: p as u16, schedule: vec![], pos: vec![0; self.k], restarted: vec![false; self.k], salt: 0 }).collect()
    }
    fn actions(&self, s: &St2, out: &mut Vec<Act2>) {
        let p = &self.progs[s.prog as usize];
        for j in 0..self.k {
            // one call past the end is allowed (must stay None)
            if (s.pos[j] as usize) <= p.solo.len() {
                out.push(Act2::Step(j as u8));
            }
            if !s.restarted[j] && s.pos[j] > 0 {
                out.push(Act2::Restart(j as u8));
            }
        }
    }
    fn next_state(&self, s: &St2, a: Act2) -> Option<St2> {
        let p = &self.progs[s.prog as usize];
        let mut n = s.clone();
        n.schedule.push(a.clone());
        let mut sched = n.schedule.clone();
        // every step is followed by a look at vars() of the same iterator
        let (item, _) = replay_schedule(p, self.k, &sched);
        let mut st = self.stats.lock().unwrap();
        st.transitions += 1;
        st.traces += 1;
        match &a {
            Act2::Step(j) => {
                let j = *j as usize;
                let want = p.solo.get(s.pos[j] as usize).cloned().unwrap_or(ObsItem::End);
                let got = item.unwrap_or(ObsItem::End);
                if got != want {
                    let sum = format!("program:\n{}schedule: {:?}\niterator {j} item {}: expected {} (as in a solo run), got {}", p.text, n.schedule, s.pos[j], want.brief(), got.brief());
                    let sched_txt: Vec<String> = n.schedule.iter().map(act_text).collect();
                    st.violation("interleaved iterators interfere", n.schedule.len() as u64, sum, || json!({"kind": "interleave", "text": p.text, "signals": sigs_json(&p.sigs), "iterators": self.k, "schedule": sched_txt, "expected": [want.brief()], "observed": [got.brief()]}));
                    return None;
                }
                if s.pos.iter().enumerate().any(|(i, x)| i != j && *x > 0 && (*x as usize) < p.solo.len()) {
                    st.witness("step_while_another_iterator_is_mid_run");
                }
                drop(st);
                // vars() of that iterator right after the step
                sched.push(Act2::Vars(j as u8));
                let (_, vars) = replay_schedule(p, self.k, &sched);
                let want_vars = p.solo_vars.get(s.pos[j] as usize).cloned().flatten();
                if (s.pos[j] as usize) < p.solo.len() && p.solo[s.pos[j] as usize].is_row() && vars != want_vars {
                    let mut st = self.stats.lock().unwrap();
                    let sum = format!("program:\n{}schedule: {:?}\niterator {j}: vars() = {vars:?}, solo run {want_vars:?}", p.text, sched);
                    let sched_txt: Vec<String> = sched.iter().map(act_text).collect();
                    st.violation("vars() differs under interleaving", sched.len() as u64, sum, || json!({"kind": "interleave", "text": p.text, "signals": sigs_json(&p.sigs), "iterators": self.k, "schedule": sched_txt, "expected": [format!("{want_vars:?}")], "observed": [format!("{vars:?}")]}));
                    return None;
                }
                n.pos[j] += 1;
            }
            Act2::Restart(j) => {
                st.witness("iterator_restarted_mid_run");
                n.pos[*j as usize] = 0;
                n.restarted[*j as usize] = true;
            }
            Act2::Vars(_) => {}
        }
        if !self.merge {
            n.salt = hash64(&n.schedule);
        }
        Some(n)
    }
    fn properties(&self) -> Vec<Property<Self>> {
        vec![Property::always("positions stay within the run", |m: &M2, s: &St2| s.pos.iter().all(|x| (*x as usize) <= m.progs[s.prog as usize].solo.len() + 1))]
    }
}

fn act_text(a: &Act2) -> String {
    match a {
        Act2::Step(j) => format!("step {j}"),
        Act2::Restart(j) => format!("restart {j}"),
        Act2::Vars(j) => format!("vars {j}"),
    }
}

pub fn replay_interleave(j: &serde_json::Value) -> Vec<String> {
    let text = j["text"].as_str().unwrap_or("").to_string();
    let sigs: Vec<Sig> = j["signals"].as_array().map(|a| a.iter().filter_map(|s| s.as_str().and_then(Sig::parse)).collect()).unwrap_or_default();
    let k = j["iterators"].as_u64().unwrap_or(2) as usize;
    let schedule: Vec<Act2> = j["schedule"]
        .as_array()
        .map(|a| {
            a.iter()
                .filter_map(|s| {
                    let (w, n) = s.as_str()?.split_once(' ')?;
                    let n: u8 = n.parse().ok()?;
                    Some(match w {
                        "step" => Act2::Step(n),
                        "restart" => Act2::Restart(n),
                        _ => Act2::Vars(n),
                    })
                })
                .collect()
        })
        .unwrap_or_default();
    let Ok(tc) = load(&text, &sigs, DEFAULT_BUDGET) else { return vec!["does not load".into()] };
    let p = Prog2 { text, sigs, tc, solo: vec![], solo_vars: vec![] };
    let (item, vars) = replay_schedule(&p, k, &schedule);
    vec![match (item, vars) {
        (Some(i), _) => i.brief(),
        (None, v) => format!("{v:?}"),
    }]
}

fn part2_programs() -> Vec<(String, Vec<Sig>)> {
    let s = || vec![Sig::inp("A", 4, 0), Sig::inp("B", 1, 0), Sig::out("Q", 4)];
    let t = |x: &str| (x.to_string(), s());
    vec![
        t("A B Q\nX X 1\n1 0 X\n"),
        t("A B Q\n1 C 1\n"),
        t("A B Q\nX C X\n"),
        t("A B Q\nloop ( i , 2 )\nloop ( j , 2 )\n( i + j ) 0 X\nend loop\nend loop\n"),
        t("A B Q\nlet a = 1 ;\nloop ( i , 2 )\nlet a = a + i ;\n( a ) X X\nend loop\n( a ) 0 X\n"),
        t("A B Q\n( Q ) 0 X\n( Q + 1 ) C X\n( Q ) 0 X\n"),
        t("A B Q\nlet n = 0 ;\nwhile ( n < 2 )\n( n ) 0 ( Q )\nlet n = n + 1 ;\nend while\n"),
        t("A B Q\nrepeat ( 2 ) ( n ) X 1\n"),
        t("A B Q\n( random ( 10 ) ) 0 X\nresetRandom ;\n( random ( 10 ) ) 0 X\n"),
        t("A B Q\ndeclare V = Q + 1 ;\n1 0 X\n2 C 1\n"),
        t("A B Q\nloop ( i , Q + 1 )\n( i ) 0 X\nend loop\n3 0 X\n"),
        t("A B Q\nbits ( 4 , 5 ) 0 X\n( 1 / ( Q - 1 ) ) 0 X\n1 0 X\n"),
    ]
}

fn part2(k: usize, merge: bool, max_rows: usize, deadline: &Deadline) -> Stats {
    let mut progs = vec![];
    for (text, sigs) in part2_programs() {
        let Ok(tc) = load(&text, &sigs, DEFAULT_BUDGET) else { continue };
        let script = script_for(&sigs, 64);
        let mut opts = RunOpts::new(40);
        opts.seed = 5;
        opts.collect_vars = true;
        let solo = run_loaded(&tc, &sigs, true, &script, &opts);
        let mut items = solo.items.clone();
        // the interleaved projection does not carry the virtual flag
        for it in items.iter_mut() {
            if let ObsItem::Row(r) = it {
                for o in r.outputs.iter_mut() {
                    o.is_virtual = false;
                    o.failing = !o.check;
                    o.value_check = (o.check, o.check);
                }
            }
        }
        if items.last() == Some(&ObsItem::End) {
            items.pop();
        }
        if items.len() > max_rows {
            continue;
        }
        progs.push(Prog2 { text, sigs, tc, solo: items, solo_vars: solo.vars.clone() });
    }
    let stats = Arc::new(Mutex::new(Stats::default()));
    let m = M2 { progs: Arc::new(progs), k, merge, stats: stats.clone() };
    let nprogs = m.progs.len();
    let remaining = deadline.at.saturating_duration_since(Instant::now());
    let checker = m.checker().threads(threads()).timeout(remaining).spawn_bfs().join();
    let mut st = std::mem::take(&mut *stats.lock().unwrap());
    st.states = checker.unique_state_count() as u64;
    st.max_depth = checker.max_depth() as u64;
    st.evals += st.transitions;
    st.nontrivial += st.states;
    st.space(&format!("part 2: programs under {k} interleaved iterators{}", if merge { "" } else { " (stateless re-exploration)" }), nprogs as u64);
    if !checker.is_done() {
        st.caps.push("wall cap hit in the interleaving exploration".into());
    }
    st
}

// ---------------------------------------------------------------------------------------
// part 3: static vs dynamic

/// part 3b: programs that read no outputs but fail at run time somewhere: the static iterator
/// yields, item by item, what a dynamic run yields, also after an error item
fn part3b(deadline: &Deadline) -> Stats {
    let sigs = vec![Sig::inp("A", 8, 0), Sig::inp("B", 8, 1), Sig::out("Q", 8)];
    let l = |n: i64| Entry::Lit(n, Radix::Dec);
    let i = || name("i");
    let atoms = vec![
        Stmt::Row(vec![l(1), l(2), Entry::X]),
        Stmt::Row(vec![Entry::Paren(bin(BinOp::Div, lit(6), bin(BinOp::Sub, i(), lit(1)))), Entry::Paren(i()), l(3)]),
        Stmt::Row(vec![Entry::Paren(random(lit(1))), l(0), Entry::X]),
        Stmt::Row(vec![Entry::X, Entry::Paren(bin(BinOp::Rem, lit(7), i())), Entry::Z]),
        Stmt::Let("i".into(), bin(BinOp::Add, i(), lit(1))),
        Stmt::Let("k".into(), bin(BinOp::Div, lit(1), lit(0))),
        Stmt::Repeat(lit(2), vec![Entry::Paren(bin(BinOp::Div, lit(4), name("n"))), l(0), Entry::X]),
        // declared signals that read no output (the test stays static) and cannot be evaluated
        Stmt::Declare("W".into(), bin(BinOp::Div, lit(1), lit(0))),
        Stmt::Declare("W2".into(), Expr::SignExt(Box::new(lit(4)), Box::new(lit(8)))),
        Stmt::Declare("W3".into(), random(lit(1))),
    ];
    let blocks = vec![Block::Loop("i".into(), lit(3)), Block::Loop("j".into(), bin(BinOp::Div, lit(2), lit(0)))];
    let mut total = Stats::default();
    for k in 1..=3 {
        let sp = ForestSpace::new(atoms.clone(), blocks.clone(), 2, k);
        let st = par_range(&format!("part 3b: programs with {k} statements that fail at run time: static vs dynamic item sequences, carrying on after error items"), sp.count(k), deadline, |idx, st| {
            let mut body = vec![Stmt::Let("i".into(), lit(0))];
            body.extend(sp.unrank(k, idx));
            let prog = Program { header: vec!["A".into(), "B".into(), "Q".into()], body };
            {
                let d = prog.declares();
                if (1..d.len()).any(|i| d[..i].iter().any(|x| x.0 == d[i].0)) {
                    return; // the same name declared twice is not a valid program
                }
            }
            let text = text(&prog);
            let Ok(tc) = load(&text, &sigs, DEFAULT_BUDGET) else { return };
            st.evals += 1;
            let StaticObs::Rows(rows, _) = run_static_opt(&tc, 30, 1, 20_000, true) else { return };
            let script = vec![Step::Ans(vec![("Q".into(), V::Num(5))])];
            let mut opts = RunOpts::new(31);
            opts.repeat_last = true;
            opts.continue_after_error = true;
            opts.budget = 20_000;
            let o = run_loaded(&tc, &sigs, true, &script, &opts);
            let dynrows: Vec<Result<StaticRow, String>> = o
                .items
                .iter()
                .filter(|i| **i != ObsItem::End)
                .map(|i| match i {
                    ObsItem::Row(r) => Ok(StaticRow { line: r.line, inputs: r.inputs.clone(), expected: r.outputs.iter().map(|x| (x.name.clone(), x.expected)).collect() }),
                    other => Err(other.brief()),
                })
                .collect();
            if rows.iter().any(|r| r.is_err()) {
                st.nontrivial += 1;
                st.witness("static_iteration_past_an_error_item");
            }
            // an error that repeats for ever (a failing while condition) fills both to the cap
            let n = rows.len().min(dynrows.len()).min(30);
            let same = (rows.len() == dynrows.len() || n == 30) && rows.iter().zip(dynrows.iter()).take(n).all(|(s, d)| match (s, d) {
                (Ok(s), Ok(d)) => s == d,
                (Err(_), Err(_)) => true,
                _ => false,
            });
            if !same {
                let sum = format!("{text}static iteration yields {} items, a dynamic run {}:\n static  {:?}\n dynamic {:?}", rows.len(), dynrows.len(), rows.iter().map(|r| r.as_ref().map(|r| r.line).map_err(|_| "error")).collect::<Vec<_>>(), dynrows.iter().map(|r| r.as_ref().map(|r| r.line).map_err(|_| "error")).collect::<Vec<_>>());
                st.violation("static items differ from a dynamic run after an error item", idx, sum, || dyn_replay(&text, &sigs, true, &script, &opts, rows.iter().map(|r| format!("{r:?}")).collect(), &o, "static != dynamic"));
            }
        });
        total.merge(st);
    }
    total
}

/// try_iter_static succeeds iff the program reads no output - wherever the read stands and whether
/// or not the output read has a column in the header (outputs and bidirectional signals of the
/// signal list that the header does not mention; a declaration that reads one).
fn part3c(deadline: &Deadline) -> Stats {
    let sigs = vec![Sig::inp("A", 8, 0), Sig::out("BUSY", 4), Sig::bidir("D", 4, V::Z), Sig::out("Q", 4), Sig::inp("B", 4, 1)];
    let reads = ["BUSY", "D", "Q", "B0"]; // B0 is no signal: a variable that is bound first
    let forms: Vec<(&str, Box<dyn Fn(&str) -> String + Send + Sync>)> = vec![
        ("row", Box::new(|n| format!("({n} + 2)\n"))),
        ("let", Box::new(|n| format!("let v = {n} * 2;\n(v)\n"))),
        ("loop bound", Box::new(|n| format!("loop(i, {n} & 1)\n(i)\nend loop\n1\n"))),
        ("repeat bound", Box::new(|n| format!("repeat({n} & 1) 3\n1\n"))),
        ("while", Box::new(|n| format!("let c = 0;\nwhile(c < ({n} & 1))\nlet c = c + 1;\n(c)\nend while\n1\n"))),
        ("declare", Box::new(|n| format!("declare V = {n} + 1;\n1\n"))),
        ("ite branch never taken", Box::new(|n| format!("(ite(1, 4, {n}))\n"))),
        ("bits", Box::new(|n| format!("bits(8, {n})\n"))),
        ("inside a loop that never runs", Box::new(|n| format!("loop(i, 0)\n({n})\nend loop\n1\n"))),
    ];
    let headers = ["A", "A Q", "A D_out", "B A"];
    par_range("part 3c: reads of BUSY / D / Q / a bound variable in 9 places x 4 headers: try_iter_static verdict", (reads.len() * forms.len() * headers.len()) as u64, deadline, |u, st| {
        let d = crate::engine::digits(u, &[headers.len() as u64, forms.len() as u64, reads.len() as u64]);
        let (n, (fname, f), h) = (reads[d[2]], &forms[d[1]], headers[d[0]]);
        let ncol = h.split(' ').count();
        // the form's rows have one entry: pad every row to the width of the header
        let body: String = f(n).lines().map(|l| if l.starts_with("let") || l.starts_with("loop") || l.starts_with("end") || l.starts_with("while") || l.starts_with("declare") { format!("{l}\n") } else { format!("{l}{}\n", " X".repeat(ncol - 1)) }).collect();
        let pre = if n == "B0" { if *fname == "declare" { return } else { "let B0 = 1;\n" } } else { "" };
        let text = format!("{h}\n{pre}{body}");
        let Ok(tc) = load(&text, &sigs, DEFAULT_BUDGET) else { return };
        st.evals += 1;
        st.nontrivial += 1;
        let reads_output = n != "B0";
        let so = run_static(&tc, 20, 1, 50_000);
        st.witness(if reads_output { "read_of_an_output_without_a_column" } else { "static_program" });
        let bad = match (&so, reads_output) {
            (StaticObs::NotStatic(_), true) => None,
            (StaticObs::Rows(..), false) => None,
            (StaticObs::Panic(p), _) => Some(format!("static iteration panics: {p}")),
            (_, true) => Some(format!("try_iter_static succeeds although the program reads the output {n} ({fname})")),
            (other, false) => Some(format!("try_iter_static refused for a program that reads no output: {other:?}")),
        };
        if let Some(m) = bad {
            st.violation(if reads_output { "static iteration accepted for a program that reads outputs" } else { "static iteration refused for a program that reads no outputs" }, (15 << 40) + u, format!("signals: {}\n{text}{m}", sigs.iter().map(|s| s.show()).collect::<Vec<_>>().join(", ")), || json!({"kind": "static", "text": text, "signals": sigs_json(&sigs), "expected": [if reads_output { "try_iter_static fails" } else { "try_iter_static succeeds" }], "observed": [m.clone()]}));
        }
    })
}

fn part3(tier: Tier, deadline: &Deadline) -> Stats {
    let lists = c01::signal_lists();
    let sigs = lists[0].clone();
    let header: Vec<String> = ["P0", "P1", "P2", "a", "i", "n", "Q"].iter().map(|s| s.to_string()).collect();
    let (atoms, blocks) = c01::alphabet(true, false);
    let maxk = tier.pick(3, 4);
    let mut total = Stats::default();
    for k in 1..=maxk {
        let sp = ForestSpace::new(atoms.clone(), blocks.clone(), 3, k);
        let n = sp.count(k);
        let st = par_range(&format!("part 3: programs with {k} statements (C01/C18 alphabet): try_iter_static verdict, and static rows vs dynamic runs over 4 answer values x 3 layouts"), n, deadline, |idx, st| {
            let body = sp.unrank(k, idx);
            if k == 4 && mentions(&body, "Q") {
                return;
            }
            let prog = Program { header: header.clone(), body };
            let text = text(&prog);
            let Ok(tc) = load(&text, &sigs, DEFAULT_BUDGET) else {
                st.violation("program does not load", idx, format!("{text}"), || json!({"kind": "parse", "text": text, "expected": ["accepted"], "observed": [crate::props::c09::describe(&text)]}));
                return;
            };
            st.evals += 1;
            // no program of this space calls random: its rows do not depend on the generator's seed
            // (the device answers Z, then 1: a polling loop that reads Z must not toss a coin)
            {
                let zs: Answer = sigs.iter().filter(|s| s.is_out()).map(|s| (s.name.clone(), V::Z)).collect();
                let ones: Answer = sigs.iter().filter(|s| s.is_out()).map(|s| (s.name.clone(), V::Num(1))).collect();
                let script = vec![Step::Ans(zs.clone()), Step::Ans(zs), Step::Ans(ones)];
                let mut runs = vec![];
                for sd in [1u64, 0x5eed_0002, 77] {
                    let mut opts = RunOpts::new(20);
                    opts.repeat_last = true;
                    opts.continue_after_error = true;
                    opts.seed = sd;
                    runs.push((run_loaded(&tc, &sigs, true, &script, &opts), opts));
                }
                // and the read-only methods (size_hint, vars) called before every next() change nothing
                {
                    let mut opts = RunOpts::new(20);
                    opts.repeat_last = true;
                    opts.continue_after_error = true;
                    opts.seed = 1;
                    opts.poke = true;
                    let poked = run_loaded(&tc, &sigs, true, &script, &opts);
                    if poked.items != runs[0].0.items || poked.log != runs[0].0.log {
                        st.violation("size_hint()/vars() between the rows change the run", idx, format!("{text}the device answers Z, Z, then 1 for every output; calling size_hint() and vars() before every next() changes the rows or the driver calls"), || dyn_replay(&text, &sigs, true, &script, &opts, crate::compare::obs_items_brief(&runs[0].0), &poked, "differs from the run without the calls"));
                        return;
                    }
                }
                st.witness("same_program_under_three_seeds");
                if let Some(j) = (1..3).find(|&j| runs[j].0.items != runs[0].0.items) {
                    let k = runs[0].0.items.iter().zip(runs[j].0.items.iter()).position(|(a, b)| a != b).unwrap_or(0);
                    let (o, opts) = &runs[j];
                    st.violation("rows depend on the generator's seed although the program never calls random", idx, format!("{text}the device answers Z, Z, then 1 for every output\nitem {k} under seed 1: {}\nitem {k} under seed {}: {}", runs[0].0.items.get(k).map(|i| i.brief()).unwrap_or_default(), opts.seed, o.items.get(k).map(|i| i.brief()).unwrap_or_default()), || dyn_replay(&text, &sigs, true, &script, opts, crate::compare::obs_items_brief(&runs[0].0), o, "differs from the run under seed 1"));
                    return;
                }
            }
            let reads = static_reads(&prog);
            let so = run_static_opt(&tc, 45, 1, 5_000, true);
            let replay = |obs: String| json!({"kind": "static", "text": text, "signals": sigs_json(&sigs), "expected": [if reads.is_empty() { "try_iter_static succeeds (the program reads no outputs)".to_string() } else { format!("try_iter_static fails (the program reads {reads:?})") }], "observed": [obs]});
            match (&so, reads.is_empty()) {
                (StaticObs::NotStatic(_), false) => {
                    st.witness("program_reading_outputs_is_not_static");
                    return;
                }
                (StaticObs::NotStatic(m), true) => {
                    st.violation("static iteration refused for a program that reads no outputs", idx, format!("{text}try_iter_static: {m}"), || replay("refused".into()));
                    return;
                }
                (StaticObs::Rows(..), false) => {
                    st.violation("static iteration accepted for a program that reads outputs", idx, format!("{text}reads {reads:?} where no variable of that name is in scope, but try_iter_static succeeded"), || replay("accepted".into()));
                    return;
                }
                (StaticObs::Panic(s), _) => {
                    st.violation("static iteration panics", idx, format!("{text}{s}"), || replay(s.clone()));
                    return;
                }
                (StaticObs::Watchdog, _) => {
                    // a static program that does not terminate (while(n=203) with n never bound is not static; a<2 loops are)
                    st.out_of_scope += 1;
                    return;
                }
                (StaticObs::Rows(..), true) => {}
            }
            let StaticObs::Rows(rows, ended) = so else { return };
            // a program that does not end within 45 items (a failing while condition repeats its
            // error for ever): the first 45 items are compared
            let cap = if ended { usize::MAX } else { 45 };
            if rows.iter().any(|r| r.is_err()) {
                st.witness("static_program_with_an_error_item_compared_with_dynamic_runs");
            }
            st.nontrivial += 1;
            st.witness("static_program_compared_with_dynamic_runs");
            // the crate's own public pieces of the static iteration, used by hand: try_iter over
            // static_test::Driver, every row through From<DataRow> for StaticDataRow
            match run_public_static_driver(&tc, 45, 1, 5_000, true) {
                StaticObs::Rows(prows, _) => {
                    st.witness("public_static_driver_and_from_impl");
                    let same = prows.len() == rows.len()
                        && prows.iter().zip(rows.iter()).all(|(d, s)| match (d, s) {
                            (Ok(d), Ok(s)) => d == s,
                            (Err(_), Err(_)) => true,
                            _ => false,
                        });
                    if !same {
                        let k = prows.iter().zip(rows.iter()).position(|(d, s)| match (d, s) {
                            (Ok(d), Ok(s)) => d != s,
                            (Err(_), Err(_)) => false,
                            _ => true,
                        });
                        st.violation("static rows differ from try_iter over static_test::Driver + From<DataRow>", idx, format!("{text}try_iter_static yields {} items, try_iter(&mut static_test::Driver) turned into StaticDataRow {}; first difference at {k:?}:\n static {:?}\n by hand {:?}", rows.len(), prows.len(), k.and_then(|k| rows.get(k)), k.and_then(|k| prows.get(k))), || replay(format!("{:?}", k.and_then(|k| prows.get(k)))));
                        return;
                    }
                }
                StaticObs::Watchdog => {}
                other => {
                    st.violation("static rows differ from try_iter over static_test::Driver + From<DataRow>", idx, format!("{text}try_iter(&mut static_test::Driver): {other:?}"), || replay(format!("{other:?}")));
                    return;
                }
            }
            // dynamic runs: whatever the driver returns
            for (ai, val) in [V::Num(0), V::Num(7), V::Z, V::X].into_iter().enumerate() {
                for layout in 0..3 {
                    let answer: Answer = sigs
                        .iter()
                        .filter(|s| s.is_out())
                        .filter(|s| match layout {
                            0 => true,
                            1 => false,
                            _ => s.name == "a",
                        })
                        .map(|s| (s.name.clone(), val))
                        .collect();
                    let script = vec![Step::Ans(answer)];
                    let mut opts = RunOpts::new(46);
                    opts.repeat_last = true;
                    opts.continue_after_error = true;
                    let o = run_loaded(&tc, &sigs, true, &script, &opts);
                    st.steps += o.items.len() as u64;
                    let dynrows: Vec<Result<StaticRow, String>> = o
                        .items
                        .iter()
                        .filter(|i| **i != ObsItem::End)
                        .map(|i| match i {
                            ObsItem::Row(r) => Ok(StaticRow { line: r.line, inputs: r.inputs.clone(), expected: r.outputs.iter().map(|x| (x.name.clone(), x.expected)).collect() }),
                            other => Err(other.brief()),
                        })
                        .collect();
                    // mid-clock rows have no outputs in a dynamic run and no expected entries in a static one
                    let same = (dynrows.len() == rows.len() || (cap == 45 && dynrows.len() >= 45)) && dynrows.iter().zip(rows.iter()).take(cap).all(|(d, s)| match (d, s) {
                        (Ok(d), Ok(s)) => d == s,
                        (Err(_), Err(_)) => true,
                        _ => false,
                    });
                    if !same {
                        let k = dynrows.iter().zip(rows.iter()).position(|(d, s)| match (d, s) {
                            (Ok(d), Ok(s)) => d != s,
                            (Err(_), Err(_)) => false,
                            _ => true,
                        });
                        let sum = format!("{text}driver returns {} for layout {layout}\nstatic iteration yields {} rows, the dynamic run {}; first difference at row {k:?}:\n static  {:?}\n dynamic {:?}", val.show(), rows.len(), dynrows.len(), k.and_then(|k| rows.get(k)), k.and_then(|k| dynrows.get(k)));
                        st.violation("static rows differ from a dynamic run", idx << 4 | (ai as u64) << 2 | layout as u64, sum, || dyn_replay(&text, &sigs, true, &script, &opts, rows.iter().map(|r| format!("{r:?}")).collect(), &o, "static != dynamic"));
                        return;
                    }
                }
            }
            // a driver that misbehaves once (fails, or answers in another order / with fewer values
            // than its first answer) spoils the row of that call and nothing else: the caller
            // carries on and every other row is still the static one
            let full: Answer = sigs.iter().filter(|s| s.is_out()).map(|s| (s.name.clone(), V::Num(7))).collect();
            let mut reversed = full.clone();
            reversed.reverse();
            let devs = [Step::Fault(31), Step::Ans(reversed), Step::Ans(full[..1].to_vec())];
            for j in 1..=rows.len().min(4) {
                if !ended || rows.iter().any(|r| r.is_err()) {
                    break;
                }
                for (di, dev) in devs.iter().enumerate() {
                    let mut script: Vec<Step> = vec![Step::Ans(full.clone()); j];
                    script.push(dev.clone());
                    script.push(Step::Ans(full.clone()));
                    let mut opts = RunOpts::new(46);
                    opts.repeat_last = true;
                    opts.continue_after_error = true;
                    let o = run_loaded(&tc, &sigs, true, &script, &opts);
                    st.steps += o.items.len() as u64;
                    let items: Vec<&ObsItem> = o.items.iter().filter(|i| **i != ObsItem::End).collect();
                    let mut bad: Option<(usize, String)> = None;
                    if items.len() != rows.len() {
                        bad = Some((items.len().min(rows.len()), format!("static iteration yields {} items, the dynamic run {}", rows.len(), items.len())));
                    } else {
                        for (k, (d, s)) in items.iter().zip(rows.iter()).enumerate() {
                            // the item whose call (number j) was the misbehaving one
                            let hit = o.calls_after.get(k + 1).copied() == Some(j + 1) && o.calls_after.get(k).copied() == Some(j);
                            let ok = match (d, s) {
                                (ObsItem::Row(r), Ok(s)) if !hit || (di > 0 && r.outputs.is_empty()) => StaticRow { line: r.line, inputs: r.inputs.clone(), expected: r.outputs.iter().map(|x| (x.name.clone(), x.expected)).collect() } == *s,
                                (ObsItem::Row(_), Ok(_)) => false,
                                (ObsItem::DriverErr(_) | ObsItem::Runtime(_), Ok(_)) => hit,
                                (ObsItem::Runtime(_), Err(_)) => true,
                                _ => false,
                            };
                            if hit {
                                st.witness("row_spoilt_by_a_misbehaving_driver_then_carried_on");
                            }
                            if !ok {
                                bad = Some((k, format!("item {k}: static {:?}, dynamic {}", s.as_ref().map(|r| r.line), d.brief())));
                                break;
                            }
                        }
                    }
                    if let Some((k, m)) = bad {
                        let what = ["fails", "answers in reversed order", "answers with one value"][di];
                        let sum = format!("{text}the driver {what} at call {j} (once), the caller carries on
{m}
(first difference at item {k})");
                        st.violation("static rows differ from a dynamic run whose driver misbehaved once", idx << 6 | (j as u64) << 2 | di as u64, sum, || dyn_replay(&text, &sigs, true, &script, &opts, rows.iter().map(|r| format!("{r:?}")).collect(), &o, "static != dynamic"));
                        return;
                    }
                }
            }
            if idx % 301 == 5 {
                st.sample(|| json!({"part": 3, "program": text, "static_rows": rows.len()}));
            }
        });
        total.merge(st);
    }
    total
}

pub fn run(tier: Tier, seed: u64) -> i32 {
    let started = Instant::now();
    let deadline = Deadline::new(tier.wall_cap());
    let mut total = Stats::default();
    part1(&mut total);
    // far beyond the enumerated scope: a static test with 70 001 rows yields them all, as a dynamic run does
    {
        let sigs = vec![Sig::inp("A", 32, 0), Sig::inp("B", 8, 1), Sig::out("Q", 8)];
        let prog = Program { header: vec!["A".into(), "B".into(), "Q".into()], body: vec![Stmt::Loop("i".into(), lit(70_000), vec![Stmt::Row(vec![Entry::Paren(name("i")), Entry::Lit(1, Radix::Dec), Entry::X])]), Stmt::Row(vec![Entry::Lit(7, Radix::Dec), Entry::Lit(7, Radix::Dec), Entry::Lit(7, Radix::Dec)])] };
        let text = text(&prog);
        if let Ok(tc) = load(&text, &sigs, DEFAULT_BUDGET) {
            total.evals += 1;
            total.nontrivial += 1;
            total.witness("static_test_with_70000_rows");
            let so = run_static_opt(&tc, 80_000, 1, 100_000_000, false);
            let script = vec![Step::Ans(vec![("Q".into(), V::Num(3))])];
            let mut opts = RunOpts::new(80_000);
            opts.repeat_last = true;
            opts.budget = 100_000_000;
            let o = run_loaded(&tc, &sigs, true, &script, &opts);
            let dyn_n = o.items.iter().filter(|i| i.is_row()).count();
            let dyn_last = o.items.iter().rev().find_map(|i| if let ObsItem::Row(r) = i { Some((r.line, r.inputs.clone())) } else { None });
            let (st_n, st_last, ended) = match &so {
                StaticObs::Rows(rows, ended) => (rows.iter().filter(|r| r.is_ok()).count(), rows.iter().rev().find_map(|r| r.as_ref().ok().map(|r| (r.line, r.inputs.clone()))), *ended),
                _ => (0, None, false),
            };
            if st_n != dyn_n || st_last != dyn_last || !ended || dyn_n != 70_001 {
                total.violation("static rows differ from a dynamic run (large scale)", 1 << 62, format!("{text}static iteration: {st_n} rows (ended: {ended}), last {st_last:?}\ndynamic run: {dyn_n} rows, last {dyn_last:?}\nexpected 70001 rows from both"), || json!({"kind": "static", "text": text, "signals": sigs_json(&sigs), "count_rows": true, "expected": ["70001 static rows"], "observed": [format!("{st_n} static rows")]}));
            }
        }
    }
    let k = 3;
    let p2 = part2(k, true, tier.pick(6, 10), &deadline);
    total.merge(p2);
    if tier == Tier::Thorough {
        // stateless re-exploration with two iterators: every schedule is its own state
        let p2s = part2(2, false, 4, &deadline);
        total.extra.insert("stateless_interleaving_states".into(), json!(p2s.states));
        let (s, t) = (total.states, total.transitions);
        total.merge(p2s);
        total.states = s;
        total.transitions = t;
    }
    total.merge(part3(tier, &deadline));
    total.merge(part3b(&deadline));
    total.merge(part3c(&deadline));
    total.sample(|| json!({"part": 2, "model": "k iterators over one TestCase, actions Step(j) / Restart(j), state = position vector; invariant: item p of iterator j equals item p of a solo run, vars() likewise"}));
    let meta = CheckMeta {
        id: "C15",
        tier,
        seed,
        rule: "part 1: every combination of drain orders of the parser's three hash maps (all k! each, through hook H3) for programs with up to three C columns, read outputs and declarations; part 2: explicit-state BFS (stateright) over all interleavings of k iterators (2 quick, 3 thorough) over one test with one restart per iterator, 12 programs with live internal state; part 3: every program up to K statements of the C01/C18 alphabet: try_iter_static verdict vs the reference's static read set, static rows vs 12 dynamic runs; distinct_nontrivial = non-identity orders + unique interleaving states + static programs compared".into(),
        assumptions: vec![
            "hook H3 replaces the real HashMap iteration order by an enumerated one (it reports the raw order too; evidence records that the raw order really varies)".into(),
            "interleaving states are merged on the position vector; the thorough tier re-explores without merging".into(),
            "values drawn by random are outside the property; the seed is pinned through hook H1".into(),
        ],
        required_witnesses: vec!["non_identity_hash_map_order", "binding_error_compared", "real_hash_map_order_varies_under_the_seam", "non_identity_order_in_the_dig_loader", "step_while_another_iterator_is_mid_run", "iterator_restarted_mid_run", "program_reading_outputs_is_not_static", "static_program_compared_with_dynamic_runs", "static_iteration_past_an_error_item", "row_spoilt_by_a_misbehaving_driver_then_carried_on", "static_program_with_an_error_item_compared_with_dynamic_runs", "one_loaded_test_used_twice_with_different_drivers", "iterator_advanced_with_nth", "same_program_under_three_seeds", "static_test_with_70000_rows"],
        exhaustive_note: "all orders, all interleavings (as states and schedule edges), all programs within the bounds".into(),
        e1: true,
    };
    total.merge(crate::props::c13::reuse_part(&deadline));
    total.merge(crate::props::c13::api_use_part(&deadline));
    finish(meta, total, started)
}

pub fn replay_maporder(j: &serde_json::Value) -> Vec<String> {
    let text = j["text"].as_str().unwrap_or("");
    hooks::set_map_order(0, 0);
    hooks::set_map_order(1, 0);
    hooks::set_map_order(2, 0);
    let base = dtr::ParsedTestCase::from_str(text);
    for w in 0..3 {
        hooks::set_map_order(w, j["order"][w].as_u64().unwrap_or(0) as usize);
    }
    let p = dtr::ParsedTestCase::from_str(text);
    for w in 0..3 {
        hooks::set_map_order(w, 0);
    }
    vec![match (base, p) {
        (Ok(a), Ok(b)) if a == b => "equal to the parse under the identity order".into(),
        (Ok(_), Ok(_)) => "parsed tests differ".into(),
        _ => "rejected".into(),
    }]
}

pub fn replay_digorder(j: &serde_json::Value) -> Vec<String> {
    let doc = j["document"].as_str().unwrap_or("");
    hooks::set_map_order(3, 0);
    let base = dtr::dig::File::parse(doc).ok().map(|f| f.signals);
    hooks::set_map_order(3, j["order"].as_u64().unwrap_or(0) as usize);
    let f = dtr::dig::File::parse(doc).ok().map(|f| f.signals);
    hooks::set_map_order(3, 0);
    vec![if f == base { "equal to loading under the identity order".into() } else { "differs".into() }]
}

pub fn replay_static(j: &serde_json::Value) -> Vec<String> {
    let text = j["text"].as_str().unwrap_or("");
    let sigs: Vec<Sig> = j["signals"].as_array().map(|a| a.iter().filter_map(|s| s.as_str().and_then(Sig::parse)).collect()).unwrap_or_default();
    if j["count_rows"].as_bool().unwrap_or(false) {
        return vec![match load(text, &sigs, DEFAULT_BUDGET) {
            Ok(tc) => match run_static_opt(&tc, 80_000, 1, 100_000_000, false) {
                StaticObs::Rows(rows, _) => format!("{} static rows", rows.iter().filter(|r| r.is_ok()).count()),
                other => format!("{other:?}"),
            },
            Err(e) => format!("{e:?}"),
        }];
    }
    vec![match load(text, &sigs, DEFAULT_BUDGET) {
        Ok(tc) => match run_static(&tc, 45, 1, 5_000) {
            StaticObs::NotStatic(_) => "refused".into(),
            StaticObs::Rows(..) => "accepted".into(),
            other => format!("{other:?}"),
        },
        Err(e) => format!("{e:?}"),
    }]
}
