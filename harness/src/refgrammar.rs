//! Independent reference recogniser/parser for the test DSL (DESIGN §6/C12), written from
//! the grammar, with its own longest-match lexer. It shares no code with the subject.
//! `parse` returns the generating AST (so the reference semantics can run any accepted
//! text) or the reason for rejecting.

use crate::model::*;

#[derive(Clone, Debug, PartialEq, Eq)]
pub enum Tok {
    Punct(&'static str),
    Kw(&'static str),
    Ident(String),
    /// literal text, radix, digits start offset
    Num(String),
    Eol,
    Bad(String),
    Eof,
}

#[derive(Clone, Debug, PartialEq, Eq)]
pub struct Token {
    pub tok: Tok,
    pub start: usize,
    pub end: usize,
}

const PUNCT: [&str; 22] = ["<<", ">>", "!=", "<=", ">=", ",", ";", "+", "-", "*", "/", "%", "!", "~", "^", "&", "|", "=", "<", ">", "(", ")"];
const KEYWORDS: [&str; 13] = ["end", "loop", "repeat", "bits", "let", "resetRandom", "while", "declare", "program", "init", "memory", "def", "call"];

fn is_ws(c: char) -> bool {
    c == ' ' || c == '\t' || c == '\r' || c == '\x0c'
}

/// Lex the body (after the header line). Offsets are relative to `text`, starting at `from`.
pub fn lex(text: &str, from: usize) -> Vec<Token> {
    let b = text.as_bytes();
    let mut out = vec![];
    let mut i = from;
    while i < b.len() {
        let c = text[i..].chars().next().unwrap();
        if is_ws(c) {
            i += 1;
            continue;
        }
        if c == '#' {
            while i < b.len() && b[i] != b'\n' {
                i += 1;
            }
            continue;
        }
        if c == '\n' {
            out.push(Token { tok: Tok::Eol, start: i, end: i + 1 });
            i += 1;
            continue;
        }
        if c.is_ascii_alphabetic() || c == '_' {
            let mut j = i + 1;
            while j < b.len() && (b[j].is_ascii_alphanumeric() || b[j] == b'_') {
                j += 1;
            }
            let w = &text[i..j];
            let tok = match KEYWORDS.iter().find(|k| **k == w) {
                Some(k) => Tok::Kw(k),
                None => Tok::Ident(w.to_string()),
            };
            out.push(Token { tok, start: i, end: j });
            i = j;
            continue;
        }
        if c.is_ascii_digit() {
            // longest match among decimal, hex, binary, octal literal shapes
            let mut j;
            if c != '0' {
                j = i + 1;
                while j < b.len() && b[j].is_ascii_digit() {
                    j += 1;
                }
            } else {
                // octal: 0[0-7]*
                j = i + 1;
                while j < b.len() && (b'0'..=b'7').contains(&b[j]) {
                    j += 1;
                }
                if i + 1 < b.len() && (b[i + 1] == b'x' || b[i + 1] == b'X') {
                    let mut k = i + 2;
                    while k < b.len() && b[k].is_ascii_hexdigit() {
                        k += 1;
                    }
                    if k > i + 2 && k > j {
                        j = k;
                    }
                }
                if i + 1 < b.len() && (b[i + 1] == b'b' || b[i + 1] == b'B') {
                    let mut k = i + 2;
                    while k < b.len() && (b[k] == b'0' || b[k] == b'1') {
                        k += 1;
                    }
                    if k > i + 2 && k > j {
                        j = k;
                    }
                }
            }
            out.push(Token { tok: Tok::Num(text[i..j].to_string()), start: i, end: j });
            i = j;
            continue;
        }
        if let Some(p) = PUNCT.iter().find(|p| text[i..].starts_with(**p)) {
            out.push(Token { tok: Tok::Punct(p), start: i, end: i + p.len() });
            i += p.len();
            continue;
        }
        let j = i + c.len_utf8();
        out.push(Token { tok: Tok::Bad(text[i..j].to_string()), start: i, end: j });
        i = j;
    }
    out.push(Token { tok: Tok::Eof, start: b.len(), end: b.len() });
    out
}

/// Value of a literal, None if it does not fit in an i64
pub fn lit_value(s: &str) -> Option<(i64, Radix)> {
    let (digits, radix, r) = if s.starts_with("0x") {
        (&s[2..], 16, Radix::Hex)
    } else if s.starts_with("0X") {
        (&s[2..], 16, Radix::HexUp)
    } else if s.starts_with("0b") {
        (&s[2..], 2, Radix::Bin)
    } else if s.starts_with("0B") {
        (&s[2..], 2, Radix::BinUp)
    } else if s.starts_with('0') {
        (s, 8, Radix::Oct)
    } else {
        (s, 10, Radix::Dec)
    };
    let mut v: u128 = 0;
    for c in digits.chars() {
        v = v.checked_mul(radix)?.checked_add(c.to_digit(radix as u32)? as u128)?;
        if v > i64::MAX as u128 {
            return None;
        }
    }
    Some((v as i64, r))
}

/// Header: optional blank lines, then the first non-blank line holds the names; it must be
/// ended by a line break. Returns names and the offset where the body starts.
pub fn header(text: &str) -> Result<(Vec<String>, usize), String> {
    let mut pos = 0;
    loop {
        let Some(rel) = text[pos..].find('\n') else {
            // last line without a line break
            return if text[pos..].chars().all(is_ws) { Err("no header".into()) } else { Err("header is not followed by a line break".into()) };
        };
        let line = &text[pos..pos + rel];
        let names: Vec<String> = line.split(is_ws).filter(|s| !s.is_empty()).map(|s| s.to_string()).collect();
        pos += rel + 1;
        if names.is_empty() {
            continue;
        }
        for (i, n) in names.iter().enumerate() {
            if names[..i].contains(n) {
                return Err(format!("duplicate header name {n}"));
            }
        }
        return Ok((names, pos));
    }
}

struct P<'a> {
    toks: &'a [Token],
    pos: usize,
    ncols: usize,
    declared: Vec<String>,
}

type R<T> = Result<T, String>;

impl<'a> P<'a> {
    fn peek(&self) -> &Tok {
        &self.toks[self.pos.min(self.toks.len() - 1)].tok
    }
    fn next(&mut self) -> Tok {
        let t = self.peek().clone();
        if self.pos < self.toks.len() - 1 {
            self.pos += 1;
        }
        t
    }
    fn punct(&mut self, p: &str) -> R<()> {
        match self.next() {
            Tok::Punct(q) if q == p => Ok(()),
            t => Err(format!("expected '{p}', found {t:?}")),
        }
    }
    fn ident(&mut self) -> R<String> {
        match self.next() {
            Tok::Ident(s) => Ok(s),
            t => Err(format!("expected identifier, found {t:?}")),
        }
    }
    fn number(&mut self) -> R<(i64, Radix)> {
        match self.next() {
            Tok::Num(s) => lit_value(&s).ok_or_else(|| format!("literal {s} does not fit in 64 bits")),
            t => Err(format!("expected number, found {t:?}")),
        }
    }

    fn factor(&mut self) -> R<Expr> {
        match self.peek().clone() {
            Tok::Num(_) => {
                let (v, r) = self.number()?;
                Ok(Expr::Lit(v, r))
            }
            Tok::Ident(n) => {
                self.next();
                if *self.peek() == Tok::Punct("(") {
                    let arity = match n.as_str() {
                        "random" => 1,
                        "ite" => 3,
                        "signExt" => 2,
                        _ => return Err(format!("unknown function {n}")),
                    };
                    self.next();
                    let mut args = vec![self.expr()?];
                    while *self.peek() == Tok::Punct(",") {
                        self.next();
                        args.push(self.expr()?);
                    }
                    self.punct(")")?;
                    if args.len() != arity {
                        return Err(format!("{n} takes {arity} arguments, found {}", args.len()));
                    }
                    let mut it = args.into_iter();
                    Ok(match n.as_str() {
                        "random" => random(it.next().unwrap()),
                        "ite" => ite(it.next().unwrap(), it.next().unwrap(), it.next().unwrap()),
                        _ => Expr::SignExt(Box::new(it.next().unwrap()), Box::new(it.next().unwrap())),
                    })
                } else {
                    Ok(Expr::Name(n))
                }
            }
            Tok::Punct("-") => {
                self.next();
                Ok(un(UnOp::Neg, self.factor()?))
            }
            Tok::Punct("!") => {
                self.next();
                Ok(un(UnOp::Not, self.factor()?))
            }
            Tok::Punct("~") => {
                self.next();
                Ok(un(UnOp::Inv, self.factor()?))
            }
            Tok::Punct("(") => {
                self.next();
                let e = self.expr()?;
                self.punct(")")?;
                Ok(group(e))
            }
            t => Err(format!("expected an expression, found {t:?}")),
        }
    }

    fn expr(&mut self) -> R<Expr> {
        let mut operands = vec![self.factor()?];
        let mut ops = vec![];
        loop {
            let op = match self.peek() {
                Tok::Punct(p) if *p != "!" && *p != "~" => BinOp::from_text(p),
                _ => None,
            };
            let Some(op) = op else { break };
            self.next();
            ops.push(op);
            operands.push(self.factor()?);
        }
        Ok(crate::refsem::climb(operands, ops))
    }

    fn row(&mut self) -> R<Vec<Entry>> {
        let mut es = vec![];
        let mut width = 0;
        loop {
            match self.peek().clone() {
                Tok::Punct("(") => {
                    self.next();
                    let e = self.expr()?;
                    self.punct(")")?;
                    es.push(Entry::Paren(e));
                    width += 1;
                }
                Tok::Kw("bits") => {
                    self.next();
                    self.punct("(")?;
                    let (k, _) = self.number()?;
                    if k > 64 {
                        return Err(format!("bits width {k} above 64"));
                    }
                    self.punct(",")?;
                    let e = self.expr()?;
                    self.punct(")")?;
                    es.push(Entry::Bits(k as u8, e));
                    width += k as usize;
                }
                Tok::Ident(s) => {
                    self.next();
                    es.push(match s.as_str() {
                        "c" | "C" => Entry::C,
                        "x" | "X" => Entry::X,
                        "z" | "Z" => Entry::Z,
                        _ => return Err(format!("row entry {s} is not C, X or Z")),
                    });
                    width += 1;
                }
                Tok::Num(_) => {
                    let (v, r) = self.number()?;
                    es.push(Entry::Lit(v, r));
                    width += 1;
                }
                Tok::Eol | Tok::Eof => break,
                t => return Err(format!("unexpected {t:?} in a data row")),
            }
        }
        if width != self.ncols {
            return Err(format!("data row has {width} entries for {} header names", self.ncols));
        }
        Ok(es)
    }

    fn block(&mut self, closing: Option<&'static str>) -> R<Vec<Stmt>> {
        let mut out = vec![];
        loop {
            match self.peek().clone() {
                Tok::Punct("(") | Tok::Kw("bits") | Tok::Ident(_) | Tok::Num(_) => out.push(Stmt::Row(self.row()?)),
                Tok::Kw("loop") => {
                    self.next();
                    self.punct("(")?;
                    let v = self.ident()?;
                    self.punct(",")?;
                    let e = self.expr()?;
                    self.punct(")")?;
                    if self.next() != Tok::Eol {
                        return Err("loop header must end its line".into());
                    }
                    let body = self.block(Some("loop"))?;
                    out.push(Stmt::Loop(v, e, body));
                }
                Tok::Kw("while") => {
                    self.next();
                    self.punct("(")?;
                    let e = self.expr()?;
                    self.punct(")")?;
                    if self.next() != Tok::Eol {
                        return Err("while header must end its line".into());
                    }
                    let body = self.block(Some("while"))?;
                    out.push(Stmt::While(e, body));
                }
                Tok::Kw("repeat") => {
                    self.next();
                    self.punct("(")?;
                    let e = self.expr()?;
                    self.punct(")")?;
                    out.push(Stmt::Repeat(e, self.row()?));
                }
                Tok::Kw("let") => {
                    self.next();
                    let n = self.ident()?;
                    self.punct("=")?;
                    let e = self.expr()?;
                    self.punct(";")?;
                    out.push(Stmt::Let(n, e));
                }
                Tok::Kw("declare") => {
                    self.next();
                    let n = self.ident()?;
                    self.punct("=")?;
                    let e = self.expr()?;
                    self.punct(";")?;
                    if self.declared.contains(&n) {
                        return Err(format!("{n} declared twice"));
                    }
                    self.declared.push(n.clone());
                    out.push(Stmt::Declare(n, e));
                }
                Tok::Kw("resetRandom") => {
                    self.next();
                    self.punct(";")?;
                    out.push(Stmt::ResetRandom);
                }
                Tok::Kw("end") => {
                    let Some(k) = closing else { return Err("end at top level".into()) };
                    self.next();
                    match self.next() {
                        Tok::Kw(w) if w == k => return Ok(out),
                        t => return Err(format!("end {k} expected, found end {t:?}")),
                    }
                }
                Tok::Eof => {
                    return if closing.is_some() { Err("text ends inside a block".into()) } else { Ok(out) };
                }
                Tok::Eol => {}
                t => return Err(format!("a statement cannot start with {t:?}")),
            }
            match self.peek() {
                Tok::Eol => {
                    self.next();
                }
                Tok::Eof => {
                    return if closing.is_some() { Err("text ends inside a block".into()) } else { Ok(out) };
                }
                t => return Err(format!("expected the end of the line, found {t:?}")),
            }
        }
    }
}

/// Parse a complete test text by the reference grammar.
pub fn parse(text: &str) -> Result<Program, String> {
    let (names, body_at) = header(text)?;
    let toks = lex(text, body_at);
    let mut p = P { toks: &toks, pos: 0, ncols: names.len(), declared: vec![] };
    let body = p.block(None)?;
    Ok(Program { header: names, body })
}

/// Lines (1-based, relative to the whole text) of the row nodes in pre-order, by the
/// reference lexer: the line on which the row's (or repeat's) last token stands.
pub fn accepts(text: &str) -> bool {
    parse(text).is_ok()
}
