//! `./check replay <file>`: re-run one recorded case through the subject adapter, with no
//! explorer involved, and say whether the recorded violation still reproduces.

use crate::compare::*;
use crate::driver::*;
use crate::model::*;
use crate::subject::*;
use serde_json::Value;

fn sigs_of(j: &Value) -> Vec<Sig> {
    j.as_array().map(|a| a.iter().filter_map(|s| s.as_str().and_then(Sig::parse)).collect()).unwrap_or_default()
}

pub fn replay(path: &str) -> i32 {
    let Ok(s) = std::fs::read_to_string(path) else {
        eprintln!("cannot read {path}");
        return 2;
    };
    let Ok(j) = serde_json::from_str::<Value>(&s) else {
        eprintln!("{path}: not JSON");
        return 2;
    };
    println!("property: {}", j["property"].as_str().unwrap_or("?"));
    println!("class:    {}", j["class"].as_str().unwrap_or("?"));
    println!("summary:\n{}", j["summary"].as_str().unwrap_or("?"));
    let recorded: Vec<String> = j["observed"].as_array().map(|a| a.iter().map(|x| x.as_str().unwrap_or("").to_string()).collect()).unwrap_or_default();
    let now: Vec<String> = match j["kind"].as_str() {
        Some("dynamic") => {
            let text = j["text"].as_str().unwrap_or("");
            let sigs = sigs_of(&j["signals"]);
            let script: Vec<Step> = j["script"].as_array().map(|a| a.iter().filter_map(Step::from_json).collect()).unwrap_or_default();
            let mut opts = RunOpts::new(j["max_next"].as_u64().unwrap_or(50) as usize);
            opts.after_end = j["after_end"].as_u64().unwrap_or(0) as usize;
            opts.continue_after_error = j["continue_after_error"].as_bool().unwrap_or(false);
            opts.seed = j["seed"].as_u64().unwrap_or(1);
            opts.repeat_last = j["repeat_last"].as_bool().unwrap_or(false);
            opts.poke = j["poke"].as_bool().unwrap_or(false);
            opts.stride = j["stride"].as_u64().unwrap_or(0) as usize;
            opts.extra_known = sigs_of(&j["extra_known"]);
            let ov = j["driver_overrides_write_input"].as_bool().unwrap_or(true);
            let a = obs_items_brief(&run_dynamic(text, &sigs, ov, &script, &opts));
            let b = obs_items_brief(&run_dynamic(text, &sigs, ov, &script, &opts));
            if a != b {
                eprintln!("MACHINERY-FAILURE: two replays of the same case differ (uncontrolled nondeterminism)");
                return 2;
            }
            a
        }
        Some(k) => match crate::props::replay_kind(k, &j) {
            Some(v) => v,
            None => {
                eprintln!("unknown replay kind {k}");
                return 2;
            }
        },
        None => {
            eprintln!("replay file has no kind");
            return 2;
        }
    };
    println!("expected:");
    for l in j["expected"].as_array().cloned().unwrap_or_default() {
        println!("  {}", l.as_str().unwrap_or(""));
    }
    println!("observed when recorded:");
    for l in &recorded {
        println!("  {l}");
    }
    println!("observed now:");
    for l in &now {
        println!("  {l}");
    }
    if j["kind"].as_str() == Some("none") {
        // a few classes (hand-built entries, io::Error drivers, entry points of the loader) record the case in
        // words only: there is nothing to run here
        println!("NO STAND-ALONE REPLAY for this class: the case is described above; run `./check {} quick` to see whether it still fails", j["property"].as_str().unwrap_or("<id>"));
        return 1;
    }
    if now == recorded {
        println!("REPRODUCES: the subject still behaves as recorded in the violation");
        1
    } else {
        println!("DOES NOT REPRODUCE: the subject now behaves differently from the recorded violation");
        0
    }
}
