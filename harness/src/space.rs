//! Indexable (rank/unrank) spaces of programs: every forest of K statement nodes with
//! bounded nesting over an alphabet of atomic statements and block headers.

use crate::model::*;

#[derive(Clone, Debug)]
pub enum Block {
    Loop(String, Expr),
    While(Expr),
}

pub struct ForestSpace {
    pub atoms: Vec<Stmt>,
    pub blocks: Vec<Block>,
    pub max_depth: usize,
    /// f[d][k] = number of forests with k nodes and nesting budget d
    f: Vec<Vec<u128>>,
}

impl ForestSpace {
    pub fn new(atoms: Vec<Stmt>, blocks: Vec<Block>, max_depth: usize, max_k: usize) -> Self {
        let a = atoms.len() as u128;
        let b = blocks.len() as u128;
        let mut f = vec![vec![0u128; max_k + 1]; max_depth + 1];
        for d in 0..=max_depth {
            f[d][0] = 1;
            for k in 1..=max_k {
                let mut n = a * f[d][k - 1];
                if d > 0 {
                    for j in 0..k {
                        n += b * f[d - 1][j] * f[d][k - 1 - j];
                    }
                }
                f[d][k] = n;
            }
        }
        ForestSpace { atoms, blocks, max_depth, f }
    }

    pub fn count(&self, k: usize) -> u64 {
        let n = self.f[self.max_depth][k];
        assert!(n < u64::MAX as u128);
        n as u64
    }

    pub fn unrank(&self, k: usize, idx: u64) -> Vec<Stmt> {
        self.unrank_d(self.max_depth, k, idx as u128)
    }

    fn unrank_d(&self, d: usize, k: usize, mut idx: u128) -> Vec<Stmt> {
        if k == 0 {
            assert_eq!(idx, 0);
            return vec![];
        }
        let a = self.atoms.len() as u128;
        let b = self.blocks.len() as u128;
        // first tree atomic?
        let atomic = a * self.f[d][k - 1];
        if idx < atomic {
            let which = (idx / self.f[d][k - 1]) as usize;
            let rest = idx % self.f[d][k - 1];
            let mut v = vec![self.atoms[which].clone()];
            v.extend(self.unrank_d(d, k - 1, rest));
            return v;
        }
        idx -= atomic;
        assert!(d > 0);
        for j in 0..k {
            let n = b * self.f[d - 1][j] * self.f[d][k - 1 - j];
            if idx < n {
                let per_block = self.f[d - 1][j] * self.f[d][k - 1 - j];
                let which = (idx / per_block) as usize;
                let r = idx % per_block;
                let body_idx = r / self.f[d][k - 1 - j];
                let rest_idx = r % self.f[d][k - 1 - j];
                let body = self.unrank_d(d - 1, j, body_idx);
                let first = match &self.blocks[which] {
                    Block::Loop(v, e) => Stmt::Loop(v.clone(), e.clone(), body),
                    Block::While(e) => Stmt::While(e.clone(), body),
                };
                let mut v = vec![first];
                v.extend(self.unrank_d(d, k - 1 - j, rest_idx));
                return v;
            }
            idx -= n;
        }
        unreachable!("index out of range")
    }
}

pub fn mentions(stmts: &[Stmt], name: &str) -> bool {
    fn ex(e: &Expr, n: &str) -> bool {
        match e {
            Expr::Lit(..) => false,
            Expr::Name(x) => x == n,
            Expr::Un(_, a) | Expr::Random(a) | Expr::Group(a) | Expr::Raw(_, a) => ex(a, n),
            Expr::Bin(_, a, b) | Expr::SignExt(a, b) => ex(a, n) || ex(b, n),
            Expr::Ite(c, a, b) => ex(c, n) || ex(a, n) || ex(b, n),
        }
    }
    fn en(es: &[Entry], n: &str) -> bool {
        es.iter().any(|e| match e {
            Entry::Paren(x) | Entry::Bits(_, x) => ex(x, n),
            _ => false,
        })
    }
    stmts.iter().any(|s| match s {
        Stmt::Row(es) => en(es, name),
        Stmt::Let(_, e) | Stmt::Declare(_, e) => ex(e, name),
        Stmt::Loop(_, e, b) | Stmt::While(e, b) => ex(e, name) || mentions(b, name),
        Stmt::Repeat(e, es) => ex(e, name) || en(es, name),
        Stmt::ResetRandom => false,
    })
}
