//! Generating model of `.dig` documents (DESIGN §6/C16): a circuit description is rendered
//! to the XML that Digital's XStream writer produces.

#[derive(Clone, Debug, PartialEq, Eq, Hash)]
pub enum PinKind {
    In,
    Clock,
    Out,
}

#[derive(Clone, Debug, PartialEq, Eq, Hash)]
pub enum Default {
    None,
    Value(i64),
    Z,
}

#[derive(Clone, Debug, PartialEq, Eq, Hash)]
pub struct Pin {
    pub kind: PinKind,
    /// None: the element has no Label entry
    pub label: Option<String>,
    /// raw text of the Bits entry (None: no entry, width 1)
    pub bits: Option<String>,
    pub default: Default,
    /// write the Bits entry before the Label entry
    pub bits_first: bool,
}

impl Pin {
    pub fn new(kind: PinKind, label: &str) -> Pin {
        Pin { kind, label: Some(label.into()), bits: None, default: Default::None, bits_first: false }
    }
    pub fn bits(mut self, b: &str) -> Pin {
        self.bits = Some(b.into());
        self
    }
    pub fn default(mut self, d: Default) -> Pin {
        self.default = d;
        self
    }
    pub fn show(&self) -> String {
        format!("{:?} {:?} bits={:?} default={:?}{}", self.kind, self.label, self.bits, self.default, if self.bits_first { " (Bits before Label)" } else { "" })
    }
}

#[derive(Clone, Debug, PartialEq, Eq, Hash)]
pub struct TestDesc {
    /// None: no Label entry
    pub label: Option<String>,
    pub source: String,
    /// further attribute entries of the Testcase element: (key, value as XML), written before the others
    pub extra: Vec<(&'static str, &'static str)>,
}

pub fn escape(s: &str) -> String {
    let mut o = String::new();
    for c in s.chars() {
        match c {
            '<' => o.push_str("&lt;"),
            '>' => o.push_str("&gt;"),
            '&' => o.push_str("&amp;"),
            '"' => o.push_str("&quot;"),
            '\r' => o.push_str("&#xd;"),
            _ => o.push(c),
        }
    }
    o
}

fn entry(key: &str, value_xml: &str) -> String {
    format!("        <entry>\n          <string>{key}</string>\n          {value_xml}\n        </entry>\n")
}

fn element(name: &str, entries: &str, x: usize) -> String {
    let attrs = if entries.is_empty() { "      <elementAttributes/>\n".to_string() } else { format!("      <elementAttributes>\n{entries}      </elementAttributes>\n") };
    format!("    <visualElement>\n      <elementName>{name}</elementName>\n{attrs}      <pos x=\"{x}\" y=\"100\"/>\n    </visualElement>\n")
}

thread_local! {
    static ORDER: std::cell::Cell<usize> = const { std::cell::Cell::new(0) };
}

/// Document order of the elements: 0 = pins, then tests; 1 = tests, then pins; 2 = the tests after
/// the first pin, the other pins behind them (a document lists its elements in any order)
pub fn set_element_order(o: usize) {
    ORDER.with(|c| c.set(o));
}

/// Render a document: pins and tests in the given order, interleaved with a few elements
/// that are neither.
pub fn render(pins: &[Pin], tests: &[TestDesc]) -> String {
    let mut s = String::from("<?xml version=\"1.0\" encoding=\"utf-8\"?>\n<circuit>\n  <version>2</version>\n  <attributes/>\n  <visualElements>\n");
    s.push_str(&element("Add", &entry("Bits", "<int>4</int>"), 0));
    let mut pin_chunks: Vec<String> = vec![];
    for (i, p) in pins.iter().enumerate() {
        let mut s = String::new();
        let mut es: Vec<String> = vec![];
        if let Some(l) = &p.label {
            es.push(entry("Label", &format!("<string>{}</string>", escape(l))));
        }
        if let Some(b) = &p.bits {
            let e = entry("Bits", &format!("<int>{}</int>", escape(b)));
            if p.bits_first {
                es.insert(0, e);
            } else {
                es.push(e);
            }
        }
        match p.default {
            Default::None => {}
            Default::Value(v) => es.push(entry("InDefault", &format!("<value v=\"{v}\" z=\"false\"/>"))),
            // every other high-Z default is written without the v attribute, with an empty or an unparsable one
            Default::Z => es.push(entry("InDefault", match p.label.as_deref().map(|l| l.len() % 4) { Some(1) => "<value v=\"0\" z=\"true\"/>", Some(2) => "<value z=\"true\"/>", Some(3) => "<value v=\"\" z=\"true\"/>", _ => "<value v=\"99999999999999999999\" z=\"true\"/>" })),
        }
        if p.kind == PinKind::Clock {
            es.push(entry("Frequency", "<int>2</int>"));
        }
        let name = match p.kind {
            PinKind::In => "In",
            PinKind::Clock => "Clock",
            PinKind::Out => "Out",
        };
        s.push_str(&element(name, &es.concat(), 20 * (i + 1)));
        if i == 0 {
            s.push_str(&element("Const", &entry("Value", "<long>0</long>"), 5));
        }
        pin_chunks.push(s);
    }
    let mut test_chunk = String::new();
    {
        let s = &mut test_chunk;
    for (i, t) in tests.iter().enumerate() {
        let mut es = String::new();
        for (k, v) in &t.extra {
            es.push_str(&entry(k, v));
        }
        if let Some(l) = &t.label {
            es.push_str(&entry("Label", &format!("<string>{}</string>", escape(l))));
        }
        es.push_str(&entry("Testdata", &format!("<testData>\n            <dataString>{}</dataString>\n          </testData>", escape(&t.source))));
        s.push_str(&element("Testcase", &es, 300 + 20 * i));
    }
    }
    match ORDER.with(|c| c.get()) {
        1 => {
            s.push_str(&test_chunk);
            s.push_str(&pin_chunks.concat());
        }
        2 if !pin_chunks.is_empty() => {
            s.push_str(&pin_chunks[0]);
            s.push_str(&test_chunk);
            s.push_str(&pin_chunks[1..].concat());
        }
        _ => {
            s.push_str(&pin_chunks.concat());
            s.push_str(&test_chunk);
        }
    }
    s.push_str("  </visualElements>\n  <wires>\n    <wire>\n      <p1 x=\"0\" y=\"0\"/>\n      <p2 x=\"20\" y=\"0\"/>\n    </wire>\n  </wires>\n  <measurementOrdering/>\n</circuit>");
    s
}
