//! Layout-only rewritings of a token-line program (C19, C20): extra blank / comment lines,
//! line terminators, gaps between tokens, trailing comments, final newline.

use crate::model::Line;

#[derive(Clone, Debug, PartialEq, Eq, Hash)]
pub enum Dev {
    /// a blank (or whitespace-only) line before the header
    BlankBefore(&'static str),
    /// an extra line with this content after line `pos` (0 = the header)
    Insert(usize, &'static str),
    CrlfAll,
    /// CRLF on this line only
    CrlfLine(usize),
    /// `# c` appended to this line (never the header)
    TrailingComment(usize, &'static str),
    NoFinalNewline,
    /// the gap before token `tok` of line `line` (tok >= 1) becomes this string
    Gap(usize, usize, &'static str),
    /// leading / trailing blank space on a line
    Indent(usize, &'static str),
    TrailingSpace(usize, &'static str),
    /// token `tok` of line `line` is replaced by another spelling of the same token
    Respell(usize, usize, String),
}

pub struct Laid {
    pub text: String,
    /// 1-based line of each row node
    pub row_lines: Vec<usize>,
    /// number of lines inserted above each original line (index = original line)
    pub shift: Vec<usize>,
}

pub fn apply(lines: &[Line], devs: &[Dev]) -> Laid {
    let mut out: Vec<(String, Option<usize>, bool)> = vec![]; // content, original line, crlf
    let crlf_all = devs.contains(&Dev::CrlfAll);
    for d in devs {
        if let Dev::BlankBefore(s) = d {
            out.push((s.to_string(), None, crlf_all));
        }
    }
    for (li, l) in lines.iter().enumerate() {
        let mut s = String::new();
        for d in devs {
            if let Dev::Indent(x, g) = d {
                if *x == li {
                    s.push_str(g);
                }
            }
        }
        for (ti, t) in l.toks.iter().enumerate() {
            if ti > 0 {
                let gap = devs
                    .iter()
                    .find_map(|d| match d {
                        Dev::Gap(x, y, g) if *x == li && *y == ti => Some(*g),
                        _ => None,
                    })
                    .unwrap_or(" ");
                s.push_str(gap);
            }
            let respelled = devs.iter().find_map(|d| match d {
                Dev::Respell(x, y, n) if *x == li && *y == ti => Some(n.as_str()),
                _ => None,
            });
            s.push_str(respelled.unwrap_or(t));
        }
        for d in devs {
            if let Dev::TrailingSpace(x, g) = d {
                if *x == li {
                    s.push_str(g);
                }
            }
        }
        for d in devs {
            if let Dev::TrailingComment(x, c) = d {
                if *x == li {
                    s.push_str(c);
                }
            }
        }
        let crlf = crlf_all || devs.contains(&Dev::CrlfLine(li));
        out.push((s, Some(li), crlf));
        for d in devs {
            if let Dev::Insert(p, c) = d {
                if *p == li {
                    out.push((c.to_string(), None, crlf_all));
                }
            }
        }
    }
    let mut text = String::new();
    let mut row_lines = vec![];
    let mut shift = vec![0; lines.len()];
    let mut extra = 0;
    let n = out.len();
    for (k, (s, orig, crlf)) in out.iter().enumerate() {
        text.push_str(s);
        let last = k + 1 == n;
        if !(last && devs.contains(&Dev::NoFinalNewline)) {
            text.push_str(if *crlf { "\r\n" } else { "\n" });
        }
        match orig {
            Some(li) => {
                shift[*li] = extra;
                if lines[*li].row.is_some() {
                    row_lines.push(k + 1);
                }
            }
            None => extra += 1,
        }
    }
    Laid { text, row_lines, shift }
}

/// All sets of at most `max` deviations out of `singles` (in enumeration order: fewer first).
pub fn up_to(singles: &[Dev], max: usize) -> Vec<Vec<Dev>> {
    let mut out = vec![vec![]];
    if max >= 1 {
        for d in singles {
            out.push(vec![d.clone()]);
        }
    }
    if max >= 2 {
        for i in 0..singles.len() {
            for j in i + 1..singles.len() {
                out.push(vec![singles[i].clone(), singles[j].clone()]);
            }
        }
    }
    if max >= 3 {
        for i in 0..singles.len() {
            for j in i + 1..singles.len() {
                for k in j + 1..singles.len() {
                    out.push(vec![singles[i].clone(), singles[j].clone(), singles[k].clone()]);
                }
            }
        }
    }
    out
}
