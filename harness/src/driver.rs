//! Scripted, recording TestDriver (DESIGN §3.2). Two variants: `OV = true` overrides
//! `write_input` (write-only calls are visible as such), `OV = false` leaves the trait
//! default in place (every call arrives as an output-reading call).

use crate::model::*;
use crate::refsem::Answer;
use digital_test_runner as dtr;

#[derive(Clone, Debug, PartialEq, Eq, Hash)]
pub enum Step {
    /// what an output-reading call returns (entries by signal name, in this order);
    /// for a write-only call it only means "succeed"
    Ans(Answer),
    /// the call fails with this error value
    Fault(u32),
}

impl Step {
    pub fn json(&self) -> serde_json::Value {
        match self {
            Step::Ans(a) => serde_json::json!({"ans": a.iter().map(|(n, v)| format!("{n}={}", v.show())).collect::<Vec<_>>()}),
            Step::Fault(id) => serde_json::json!({ "fault": id }),
        }
    }
    pub fn from_json(j: &serde_json::Value) -> Option<Step> {
        if let Some(id) = j.get("fault") {
            return Some(Step::Fault(id.as_u64()? as u32));
        }
        let mut a = vec![];
        for e in j.get("ans")?.as_array()? {
            let (n, v) = e.as_str()?.rsplit_once('=')?;
            a.push((n.to_string(), V::parse(v)?));
        }
        Some(Step::Ans(a))
    }
}

pub fn script_json(s: &[Step]) -> serde_json::Value {
    serde_json::Value::Array(s.iter().map(|s| s.json()).collect())
}

#[derive(Debug, Clone, PartialEq, Eq)]
pub struct Fault(pub u32);
impl std::fmt::Display for Fault {
    fn fmt(&self, f: &mut std::fmt::Formatter<'_>) -> std::fmt::Result {
        write!(f, "injected driver fault #{}", self.0)
    }
}
impl std::error::Error for Fault {}

#[derive(Clone, Debug, PartialEq, Eq, Hash)]
pub struct Call {
    /// true: write_input_and_read_output, false: write_input (only seen by the OV variant)
    pub rw: bool,
    pub inputs: Vec<(String, V, bool)>,
    /// what the driver answered (None for a write-only call / fault)
    pub answer: Option<std::rc::Rc<Answer>>,
}

pub struct ScriptDriver<'s, const OV: bool> {
    /// real signals the driver can name in its answers
    pub known: Vec<dtr::Signal>,
    pub script: &'s [Step],
    pub pos: usize,
    pub log: Vec<Call>,
    /// a call arrived after the script had run out
    pub exhausted: bool,
    /// answer used when the script has run out
    pub fallback: Answer,
    /// number of calls received so far (shared so that it can be read while the driver is borrowed)
    pub counter: std::rc::Rc<std::cell::Cell<usize>>,
    /// when the script has run out keep repeating its last step (not flagged as exhausted)
    pub repeat_last: bool,
    /// storage the returned entries point into; it is re-used for every answer (entry i of
    /// every answer lives at the same address), as a driver with a fixed buffer would do
    pub slots: Vec<dtr::Signal>,
}

/// The driver is part of the iterator's derived Debug (the state key): it must not contribute
impl<'s, const OV: bool> std::fmt::Debug for ScriptDriver<'s, OV> {
    fn fmt(&self, f: &mut std::fmt::Formatter<'_>) -> std::fmt::Result {
        write!(f, "ScriptDriver")
    }
}

impl<'s, const OV: bool> ScriptDriver<'s, OV> {
    pub fn new(known: &[Sig], script: &'s [Step]) -> Self {
        let fallback = script
            .iter()
            .find_map(|s| match s {
                Step::Ans(a) => Some(a.clone()),
                _ => None,
            })
            .unwrap_or_default();
        ScriptDriver { known: known.iter().map(|s| s.to_real()).collect(), script, pos: 0, log: vec![], exhausted: false, fallback, counter: Default::default(), repeat_last: false, slots: vec![] }
    }

    fn record(inputs: &[dtr::InputEntry<'_>]) -> Vec<(String, V, bool)> {
        inputs.iter().map(|i| (i.signal.name.clone(), V::from(i.value), i.changed)).collect()
    }

    fn next_step(&mut self) -> Step {
        self.counter.set(self.counter.get() + 1);
        let s = match self.script.get(self.pos) {
            Some(s) => s.clone(),
            None if self.repeat_last && !self.script.is_empty() => self.script[self.script.len() - 1].clone(),
            None => {
                self.exhausted = true;
                Step::Ans(self.fallback.clone())
            }
        };
        self.pos += 1;
        s
    }

    fn do_rw(&mut self, inputs: &[dtr::InputEntry<'_>]) -> Result<Vec<dtr::OutputEntry<'_>>, Fault> {
        let rec = Self::record(inputs);
        match self.next_step() {
            Step::Ans(a) => {
                let a = std::rc::Rc::new(a);
                self.log.push(Call { rw: true, inputs: rec, answer: Some(a.clone()) });
                // never shrink or reallocate the buffer once it is large enough: addresses stay put
                if self.slots.capacity() < a.len().max(8) {
                    self.slots.reserve(a.len().max(8) - self.slots.len());
                }
                for (i, (n, _)) in a.iter().enumerate() {
                    let signal = self
                        .known
                        .iter()
                        .find(|s| &s.name == n)
                        .unwrap_or_else(|| panic!("harness: driver asked to answer for unknown signal {n}"))
                        .clone();
                    if i < self.slots.len() {
                        self.slots[i] = signal;
                    } else {
                        self.slots.push(signal);
                    }
                }
                let slots = &self.slots;
                Ok(a.iter().enumerate().map(|(i, (_, v))| dtr::OutputEntry { signal: &slots[i], value: v.to_output() }).collect())
            }
            Step::Fault(id) => {
                self.log.push(Call { rw: true, inputs: rec, answer: None });
                Err(Fault(id))
            }
        }
    }
}

impl<'s> dtr::TestDriver for ScriptDriver<'s, true> {
    type Error = Fault;
    fn write_input_and_read_output(
        &mut self,
        inputs: &[dtr::InputEntry<'_>],
    ) -> Result<Vec<dtr::OutputEntry<'_>>, Fault> {
        self.do_rw(inputs)
    }
    fn write_input(&mut self, inputs: &[dtr::InputEntry<'_>]) -> Result<(), Fault> {
        let rec = Self::record(inputs);
        let step = self.next_step();
        self.log.push(Call { rw: false, inputs: rec, answer: None });
        match step {
            Step::Ans(_) => Ok(()),
            Step::Fault(id) => Err(Fault(id)),
        }
    }
}

impl<'s> dtr::TestDriver for ScriptDriver<'s, false> {
    type Error = Fault;
    fn write_input_and_read_output(
        &mut self,
        inputs: &[dtr::InputEntry<'_>],
    ) -> Result<Vec<dtr::OutputEntry<'_>>, Fault> {
        self.do_rw(inputs)
    }
}
