//! Shared machinery: statistics, parallel exhaustive enumeration (E2), evidence,
//! violation bookkeeping, known findings.

use serde_json::{json, Value};
use std::collections::{BTreeMap, HashSet};
use std::hash::{Hash, Hasher};
use std::sync::atomic::{AtomicBool, AtomicU64, Ordering};
use std::sync::Mutex;
use std::time::{Duration, Instant};

pub fn hash64<T: Hash + ?Sized>(t: &T) -> u64 {
    // fixed keys: identical across runs and threads
    let mut h = std::collections::hash_map::DefaultHasher::new();
    t.hash(&mut h);
    h.finish()
}

#[derive(Clone, Copy, Debug, PartialEq, Eq)]
pub enum Tier {
    Quick,
    Thorough,
}

impl Tier {
    pub fn name(self) -> &'static str {
        match self {
            Tier::Quick => "quick",
            Tier::Thorough => "thorough",
        }
    }
    pub fn pick<T>(self, q: T, t: T) -> T {
        match self {
            Tier::Quick => q,
            Tier::Thorough => t,
        }
    }
    pub fn wall_cap(self) -> Duration {
        match self {
            // VERIF_QUICK_WALL (seconds) is for the self-test only, which runs on a loaded machine
            Tier::Quick => Duration::from_secs(std::env::var("VERIF_QUICK_WALL").ok().and_then(|s| s.parse().ok()).unwrap_or(50)),
            Tier::Thorough => Duration::from_secs(20 * 60),
        }
    }
}

#[derive(Clone, Debug)]
pub struct Violation {
    pub class: String,
    /// smaller = found earlier in enumeration order = simpler
    pub order: u64,
    pub summary: String,
    pub replay: Value,
}

const OUTCOME_CAP: usize = 4_000_000;

#[derive(Default, Debug)]
pub struct Stats {
    pub evals: u64,
    pub nontrivial: u64,
    pub steps: u64,
    pub witnesses: BTreeMap<String, u64>,
    pub outcomes: HashSet<u64>,
    pub outcomes_capped: bool,
    pub violations: BTreeMap<String, Violation>,
    pub violation_count: u64,
    pub known: BTreeMap<String, u64>,
    pub samples: Vec<Value>,
    pub out_of_scope: u64,
    pub spaces: BTreeMap<String, u64>,
    pub states: u64,
    pub transitions: u64,
    pub traces: u64,
    pub max_depth: u64,
    pub caps: Vec<String>,
    pub extra: BTreeMap<String, Value>,
    pub disagreements: u64,
}

impl Stats {
    pub fn witness(&mut self, name: &str) {
        *self.witnesses.entry(name.to_string()).or_insert(0) += 1;
    }
    pub fn witness_n(&mut self, name: &str, n: u64) {
        *self.witnesses.entry(name.to_string()).or_insert(0) += n;
    }
    pub fn outcome<T: Hash + ?Sized>(&mut self, t: &T) {
        if self.outcomes.len() < OUTCOME_CAP {
            self.outcomes.insert(hash64(t));
        } else {
            self.outcomes_capped = true;
        }
    }
    pub fn sample(&mut self, v: impl FnOnce() -> Value) {
        if self.samples.len() < 3 {
            self.samples.push(v());
        }
    }
    pub fn space(&mut self, name: &str, n: u64) {
        *self.spaces.entry(name.to_string()).or_insert(0) += n;
    }
    pub fn violation(&mut self, class: &str, order: u64, summary: String, replay: impl FnOnce() -> Value) {
        self.violation_count += 1;
        match self.violations.get(class) {
            Some(v) if v.order <= order => {}
            _ => {
                if self.violations.len() < 64 || self.violations.contains_key(class) {
                    self.violations.insert(class.to_string(), Violation { class: class.to_string(), order, summary, replay: replay() });
                }
            }
        }
    }
    pub fn known_finding(&mut self, what: &str) {
        *self.known.entry(what.to_string()).or_insert(0) += 1;
    }
    pub fn merge(&mut self, o: Stats) {
        self.evals += o.evals;
        self.nontrivial += o.nontrivial;
        self.steps += o.steps;
        for (k, v) in o.witnesses {
            *self.witnesses.entry(k).or_insert(0) += v;
        }
        if self.outcomes.len() + o.outcomes.len() <= OUTCOME_CAP * 2 {
            self.outcomes.extend(o.outcomes);
        } else {
            self.outcomes_capped = true;
        }
        self.outcomes_capped |= o.outcomes_capped;
        for (k, v) in o.violations {
            match self.violations.get(&k) {
                Some(mine) if mine.order <= v.order => {}
                _ => {
                    self.violations.insert(k, v);
                }
            }
        }
        self.violation_count += o.violation_count;
        for (k, v) in o.known {
            *self.known.entry(k).or_insert(0) += v;
        }
        for s in o.samples {
            if self.samples.len() < 4 {
                self.samples.push(s);
            }
        }
        self.out_of_scope += o.out_of_scope;
        for (k, v) in o.spaces {
            *self.spaces.entry(k).or_insert(0) += v;
        }
        self.states += o.states;
        self.transitions += o.transitions;
        self.traces += o.traces;
        self.max_depth = self.max_depth.max(o.max_depth);
        for c in o.caps {
            if !self.caps.contains(&c) {
                self.caps.push(c);
            }
        }
        for (k, v) in o.extra {
            self.extra.insert(k, v);
        }
        self.disagreements += o.disagreements;
    }
}

pub fn threads() -> usize {
    std::env::var("VERIF_THREADS").ok().and_then(|s| s.parse().ok()).unwrap_or_else(|| {
        std::thread::available_parallelism().map(|n| n.get()).unwrap_or(8).min(16)
    })
}

pub struct Deadline {
    pub at: Instant,
    pub hit: AtomicBool,
}

impl Deadline {
    pub fn new(d: Duration) -> Self {
        Deadline { at: Instant::now() + d, hit: AtomicBool::new(false) }
    }
    pub fn expired(&self) -> bool {
        if self.hit.load(Ordering::Relaxed) {
            return true;
        }
        if Instant::now() >= self.at {
            self.hit.store(true, Ordering::Relaxed);
            return true;
        }
        false
    }
}

/// Exhaustively enumerate the index range 0..n over all cores. `f` is called exactly once
/// for every index (unless the wall cap is hit, which is recorded in `caps`).
pub fn par_range<F>(name: &str, n: u64, deadline: &Deadline, f: F) -> Stats
where
    F: Fn(u64, &mut Stats) + Sync,
{
    let t = threads();
    let chunk = (n / (t as u64 * 64)).clamp(1, 8192);
    let next = AtomicU64::new(0);
    let done = AtomicU64::new(0);
    let total = Mutex::new(Stats::default());
    std::thread::scope(|s| {
        for _ in 0..t {
            s.spawn(|| {
                let mut st = Stats::default();
                loop {
                    let start = next.fetch_add(chunk, Ordering::Relaxed);
                    if start >= n {
                        break;
                    }
                    if deadline.expired() {
                        break;
                    }
                    let end = (start + chunk).min(n);
                    for i in start..end {
                        f(i, &mut st);
                    }
                    done.fetch_add(end - start, Ordering::Relaxed);
                }
                total.lock().unwrap().merge(st);
            });
        }
    });
    let mut st = total.into_inner().unwrap();
    let d = done.load(Ordering::Relaxed);
    st.space(name, d);
    if d < n {
        st.caps.push(format!("wall cap hit in space '{name}': {d} of {n} indices enumerated"));
    }
    st
}

/// Mixed-radix decoding of an index (least significant digit first).
pub fn digits(mut i: u64, radices: &[u64]) -> Vec<usize> {
    let mut v = Vec::with_capacity(radices.len());
    for &r in radices {
        v.push((i % r) as usize);
        i /= r;
    }
    v
}

pub fn product(radices: &[u64]) -> u64 {
    radices.iter().product()
}

// ---------------------------------------------------------------------------
// Known findings

#[derive(Clone, Debug)]
pub struct Finding {
    pub status: String,
    pub property: String,
    pub id: String,
    pub what: String,
    /// violation class this finding explains (exact match)
    pub class: String,
    /// substring that must occur in the violation's summary
    pub summary_contains: String,
}

pub fn load_findings() -> Vec<Finding> {
    // the findings file is always the committed one
    let path = "/verif/known_findings.json";
    let Ok(s) = std::fs::read_to_string(path) else { return vec![] };
    let Ok(j) = serde_json::from_str::<Value>(&s) else {
        eprintln!("MACHINERY-FAILURE: {path} is not valid JSON");
        std::process::exit(2);
    };
    let mut out = vec![];
    for e in j.get("findings").and_then(|f| f.as_array()).cloned().unwrap_or_default() {
        let g = |k: &str| e.get(k).and_then(|v| v.as_str()).unwrap_or("").to_string();
        out.push(Finding {
            status: g("status"),
            property: g("property"),
            id: g("id"),
            what: g("what"),
            class: g("class"),
            summary_contains: g("summary_contains"),
        });
    }
    out
}

// ---------------------------------------------------------------------------
// Finishing a check: evidence, VIOLATION lines, exit code

/// Where evidence and replay files go: /verif, unless the self-test redirects it
/// (VERIF_OUT_ROOT) so that runs against mutated copies never touch the real evidence.
pub fn out_root() -> String {
    std::env::var("VERIF_OUT_ROOT").unwrap_or_else(|_| "/verif".to_string())
}

pub struct CheckMeta {
    pub id: &'static str,
    pub tier: Tier,
    pub seed: u64,
    pub rule: String,
    pub assumptions: Vec<String>,
    /// witness classes that must be non-empty for the run to mean anything
    pub required_witnesses: Vec<&'static str>,
    pub exhaustive_note: String,
    pub e1: bool,
}

pub fn finish(meta: CheckMeta, mut st: Stats, started: Instant) -> i32 {
    let wall = started.elapsed().as_secs_f64();
    let findings = load_findings();
    // split violations into known findings and new ones
    let mut fresh: Vec<Violation> = vec![];
    let mut known_lines: Vec<String> = vec![];
    for (_, v) in std::mem::take(&mut st.violations) {
        let hit = findings.iter().find(|f| {
            f.status == "known" && f.property == meta.id && f.class == v.class && (f.summary_contains.is_empty() || v.summary.contains(&f.summary_contains))
        });
        match hit {
            Some(f) => {
                known_lines.push(format!("KNOWN-FINDING: property={} {} [{}]", meta.id, f.what, f.id));
                st.known_finding(&f.id);
            }
            None => fresh.push(v),
        }
    }
    fresh.sort_by_key(|v| v.order);

    let mut missing_w = vec![];
    for w in &meta.required_witnesses {
        if st.witnesses.get(*w).copied().unwrap_or(0) == 0 {
            missing_w.push(w.to_string());
        }
    }
    let exhaustive = st.caps.is_empty();
    let mut cov = json!({
        "evaluations": st.evals,
        "distinct_nontrivial": st.nontrivial,
        "rule": meta.rule,
        "samples": st.samples,
        "exhaustive": exhaustive,
        "exhaustive_note": meta.exhaustive_note,
        "spaces": st.spaces,
        "witness_classes": st.witnesses,
        "distinct_observed_outcomes": st.outcomes.len(),
        "distinct_observed_outcomes_is_lower_bound": st.outcomes_capped,
        "steps_compared": st.steps,
        "out_of_scope_by_fuel": st.out_of_scope,
        "known_findings_hit": st.known,
        "caps_hit": st.caps,
        "threads": threads(),
        "violation_instances": st.violation_count,
        "reference_disagreements_not_violations": st.disagreements,
    });
    if meta.e1 {
        cov["states"] = json!(st.states);
        cov["transitions"] = json!(st.transitions);
        cov["traces_validated_against_impl"] = json!(st.traces);
        cov["max_depth"] = json!(st.max_depth);
    }
    for (k, v) in &st.extra {
        cov[k] = v.clone();
    }
    let ev = json!({
        "property_id": meta.id,
        "tier": meta.tier.name(),
        "seed": meta.seed,
        "level": "model_checking",
        "coverage": cov,
        "assumptions": meta.assumptions,
        "wall_s": wall,
        "violations": fresh.len(),
    });
    let root = out_root();
    let _ = std::fs::create_dir_all(format!("{root}/evidence"));
    let path = format!("{root}/evidence/{}.json", meta.id);
    if let Err(e) = std::fs::write(&path, serde_json::to_string_pretty(&ev).unwrap()) {
        eprintln!("MACHINERY-FAILURE: cannot write {path}: {e}");
        return 2;
    }
    for l in &known_lines {
        println!("{l}");
    }
    println!(
        "{} {}: evaluations={} nontrivial={} states={} transitions={} outcomes={} out_of_scope={} wall={:.1}s exhaustive={}",
        meta.id,
        meta.tier.name(),
        st.evals,
        st.nontrivial,
        st.states,
        st.transitions,
        st.outcomes.len(),
        st.out_of_scope,
        wall,
        exhaustive
    );
    for c in &st.caps {
        println!("CAP: {c}");
    }
    if !fresh.is_empty() {
        let _ = std::fs::create_dir_all(format!("{root}/replays"));
        for v in fresh.iter().take(10) {
            let fp = hash64(&(v.class.clone(), v.summary.clone()));
            let rp = format!("{root}/replays/{}-{:016x}.json", meta.id, fp);
            let mut r = v.replay.clone();
            r["property"] = json!(meta.id);
            r["class"] = json!(v.class);
            r["summary"] = json!(v.summary);
            let _ = std::fs::write(&rp, serde_json::to_string_pretty(&r).unwrap());
            println!("VIOLATION property={} replay={}", meta.id, rp);
            println!("  class: {}", v.class);
            for l in v.summary.lines().take(12) {
                println!("  {l}");
            }
        }
        return 1;
    }
    if !missing_w.is_empty() {
        if !st.caps.is_empty() {
            // a run cut short by its wall cap has not reached every part: that is what the CAP lines and
            // exhaustive=false say; it is not a vacuous run
            println!("NOTE: witness classes not reached before the wall cap: {missing_w:?}");
            return 0;
        }
        eprintln!("MACHINERY-FAILURE: vacuous run, empty witness classes: {missing_w:?}");
        return 2;
    }
    if st.evals == 0 {
        eprintln!("MACHINERY-FAILURE: nothing was evaluated");
        return 2;
    }
    0
}

/// All sequences of distinct indices out of 0..n with length 0..=max_len (ordered selections).
pub fn ordered_selections(n: usize, max_len: usize) -> Vec<Vec<usize>> {
    let mut out = vec![vec![]];
    let mut frontier = vec![vec![]];
    for _ in 0..max_len {
        let mut next = vec![];
        for s in &frontier {
            for i in 0..n {
                if !s.contains(&i) {
                    let mut t: Vec<usize> = s.clone();
                    t.push(i);
                    next.push(t);
                }
            }
        }
        out.extend(next.iter().cloned());
        frontier = next;
    }
    out
}

/// All sequences (with repetition) out of 0..n with length 0..=max_len.
pub fn sequences(n: usize, max_len: usize) -> Vec<Vec<usize>> {
    let mut out = vec![vec![]];
    let mut frontier = vec![vec![]];
    for _ in 0..max_len {
        let mut next = vec![];
        for s in &frontier {
            for i in 0..n {
                let mut t: Vec<usize> = s.clone();
                t.push(i);
                next.push(t);
            }
        }
        out.extend(next.iter().cloned());
        frontier = next;
    }
    out
}
