#!/usr/bin/env python3
"""usage: tools/merge_results.py <new.tsv>...   merges rows of self-test runs into selftest/RESULTS.tsv
(rows of a mutant present in a new file replace that mutant's old rows; the rest is kept)."""
import csv, sys
path = '/verif/selftest/RESULTS.tsv'
rows = list(csv.reader(open(path), delimiter='\t'))
head, rows = rows[0], rows[1:]
for f in sys.argv[1:]:
    new = [r for r in csv.reader(open(f), delimiter='\t')][1:]
    names = {r[0] for r in new}
    rows = [r for r in rows if r[0] not in names] + new
rows.sort(key=lambda r: (r[0].split('-')[0], len(r[0]), r[0], r[1]))
w = csv.writer(open(path, 'w'), delimiter='\t', lineterminator='\n', quoting=csv.QUOTE_NONE, escapechar='\\')
w.writerow(head)
for r in rows:
    w.writerow(r)
print(len(rows), 'rows')
