#!/bin/sh
# usage: tools/confirm_mutant.sh <Cxx> <patchfile-basename> <demofile-basename> <name>
# Confirms in the scratch worktree /tmp/wt/<Cxx> that the patch compiles, passes the existing
# suite, and that the demo fails with it and passes without it. On success stores it under
# /verif/seeded/<name>/.
id="$1"; patch="$2"; demo="$3"; name="$4"
wt=${WT:-/tmp/wt}/$id
cd "$wt" || exit 2
git checkout -q -- . ; rm -f tests/demo_mutant.rs
# the stored patch is taken against /repo's current HEAD (a patch written against an older HEAD is
# applied with reduced context and re-generated)
git checkout -q --detach "$(git -C /repo rev-parse HEAD)"
git apply "mutant/$patch" 2>/dev/null || git apply -C1 "mutant/$patch" || { echo "APPLY-FAIL"; exit 1; }
git diff > "mutant/$patch.rebased"
suite=$(cargo test --workspace --no-fail-fast --offline 2>&1 | grep -E "^test result" | tr '\n' ' ')
echo "suite with patch: $suite"
echo "$suite" | grep -q "FAILED\|failed; [1-9]" && { echo "SUITE-FAILS"; git checkout -q -- .; exit 1; }
echo "$suite" | grep -q "129 passed" || { echo "SUITE-NOT-129"; git checkout -q -- .; exit 1; }
cp "mutant/$demo" tests/demo_mutant.rs
with=$(cargo test --offline --test demo_mutant 2>&1 | grep -E "^test result" | tr '\n' ' ')
echo "demo with patch: $with"
git checkout -q -- .
without=$(cargo test --offline --test demo_mutant 2>&1 | grep -E "^test result" | tr '\n' ' ')
echo "demo without patch: $without"
rm -f tests/demo_mutant.rs
echo "$with" | grep -q "FAILED" || { echo "DEMO-DOES-NOT-FAIL-WITH-PATCH"; exit 1; }
echo "$without" | grep -q "ok\." || { echo "DEMO-DOES-NOT-PASS-WITHOUT-PATCH"; exit 1; }
echo "$without" | grep -q "FAILED" && { echo "DEMO-FAILS-WITHOUT-PATCH"; exit 1; }
mkdir -p /verif/seeded/$name
cp "mutant/$patch.rebased" /verif/seeded/$name/patch.diff
cp "mutant/$demo" /verif/seeded/$name/demo.rs
cat > /verif/seeded/$name/confirm.log <<EOT
worktree: $wt (scratch git worktree of /repo HEAD)
git apply mutant/$patch
cargo test --workspace --no-fail-fast --offline   -> $suite
cp mutant/$demo tests/demo_mutant.rs; cargo test --offline --test demo_mutant   -> $with
git checkout -- . ; cargo test --offline --test demo_mutant   -> $without
EOT
echo "CONFIRMED $name"
