#!/bin/sh
# usage: tools/try_isolated.sh <patch.diff> <tier> <id> [<id>...]
# Like try_mutant.sh, but never touches /repo or /verif/evidence: keeps a scratch worktree of
# /repo HEAD and a copy of the harness under /tmp/dtr-try (created on first use, re-synced on
# every call). Remove with: tools/try_isolated.sh --clean
ST=${ST:-/tmp/dtr-try}
if [ "${1:-}" = "--clean" ]; then git -C /repo worktree remove --force "$ST/repo" 2>/dev/null; rm -rf "$ST"; exit 0; fi
patch="$1"; tier="$2"; shift 2
if [ ! -d "$ST/repo" ]; then
  mkdir -p "$ST/out"; git -C /repo worktree prune
  git -C /repo worktree add -q --detach "$ST/repo" HEAD || exit 2
fi
git -C "$ST/repo" checkout -q --detach "$(git -C /repo rev-parse HEAD)" 2>/dev/null
git -C "$ST/repo" checkout -q -- .
rsync -a --delete --exclude target /verif/harness/ "$ST/harness/"
sed -i "s#path = \"/repo\"#path = \"$ST/repo\"#" "$ST/harness/Cargo.toml"
sed -i "s#target-dir = \"/verif/target\"#target-dir = \"$ST/target\"#" "$ST/harness/.cargo/config.toml"
export CARGO_NET_OFFLINE=true CARGO_TARGET_DIR="$ST/target" VERIF_OUT_ROOT="$ST/out"
git -C "$ST/repo" apply "$patch" 2>/dev/null || git -C "$ST/repo" apply -C1 "$patch" || { echo "patch does not apply"; exit 2; }
(cd "$ST/harness" && cargo build --release --offline >"$ST/build.log" 2>&1) || { echo "does not build"; tail -5 "$ST/build.log"; git -C "$ST/repo" checkout -q -- .; exit 2; }
for id in "$@"; do
  out=$("$ST/target/release/dtr-verif" "$id" "$tier" 2>&1); code=$?
  echo "== $id $tier exit=$code"
  echo "$out" | grep -E "VIOLATION|class:|MACHINERY|KNOWN-FINDING" | head -8
done
git -C "$ST/repo" checkout -q -- .
