#!/bin/sh
# usage: tools/round10.sh <Cxx> [<Cxx>...]   confirm patch1/patch2 of /tmp/w10/<Cxx>/mutant as <Cxx>-t / <Cxx>-u, then run the property's quick check against each
for id in "$@"; do
  for k in 1 2; do
    l=v; [ $k = 2 ] && l=w
    echo "#### $id-$l"
    WT=/tmp/w10 /verif/tools/confirm_mutant.sh $id patch$k.diff demo$k.rs $id-$l 2>&1 | tail -4
    if [ -f /verif/seeded/$id-$l/patch.diff ]; then
      cp /tmp/w10/$id/mutant/NOTES.md /verif/seeded/$id-$l/NOTES.md 2>/dev/null
      /verif/tools/try_isolated.sh /verif/seeded/$id-$l/patch.diff quick $id 2>&1 | grep -E "^== |class:|MACHINERY|does not" | head -5
    fi
  done
done
