#!/usr/bin/env python3-vt
import json, jsonschema, sys, glob
jsonschema.validate(json.load(open('/verif/MANIFEST.json')), json.load(open('/root/.vp/MANIFEST.schema.json')))
print('MANIFEST ok')
es = json.load(open('/root/.vp/EVIDENCE.schema.json'))
for f in sorted(glob.glob('/verif/evidence/*.json')):
    try:
        jsonschema.validate(json.load(open(f)), es); print(f, 'ok')
    except Exception as e:
        print(f, 'INVALID', str(e)[:300]); 
