#!/usr/bin/env python3
"""Writes /verif/seeded/<name>/meta.json from the table below, confirm.log and selftest/RESULTS.tsv."""
import json, os, csv

# name -> (what the change is, what it needs in order to manifest)
T = {
 "C01-a": ("loop counter read back from the variable map at the end of each iteration (index field removed)", "a let that rebinds the counter of its own loop inside the body (let i = i*2 in loop(i,4))"),
 "C01-b": ("a fresh variable frame per loop iteration instead of one per loop", "a let inside a loop body whose value is read in a later iteration (accumulator)"),
 "C02-a": ("mid-clock rows sent with the output-reading call when the test reads an output somewhere", "a C row + an output read anywhere in the program + a driver that overrides write_input"),
 "C02-b": ("write-only call skipped when the new input list equals the last one sent", "a row repeated unchanged (flags equal) directly before a C row whose low phase equals it"),
 "C03-a": ("driver output values masked to the signal width before being reported", "a driver value outside 0..2^bits on a signal narrower than 64 bits"),
 "C03-b": ("is_checked() false for expected Z and failing_outputs() pre-filtered by is_checked()", "a row with a literal expected Z (and an output that is not Z)"),
 "C04-a": ("variable table left swapped out when a virtual signal fails (early return between the two swap_vars)", "declare + failing virtual signal on one row + caller carries on + later read of a name that is variable and output"),
 "C04-b": ("let registers its name in the parser's scope before its right-hand side is parsed", "let X = X + 1 where X is an output not read elsewhere and the driver does not supply it"),
 "C05-a": ("X expansion order follows the signal list instead of the header columns", "two or more X inputs whose order in the signal list differs from the header"),
 "C05-b": ("X and C expanded in one merged right-to-left pass", "an X input to the left of a C input in the same row"),
 "C06-a": ("changed computed after masking with the width of a mis-indexed signal", "an output before an input in the signal list, a narrower confused signal, consecutive values that differ only in high bits"),
 "C06-b": ("<name>_out column lookup by prefix/suffix instead of exact match", "bidirectional names in prefix relation (D and DQ) with a partial pair or unusual column order"),
 "C06-c": ("prev (reference row for changed) committed only after the driver call succeeded", "a driver fault on one row followed by continued iteration"),
 "C07-a": ("width masks precomputed per header column (last signal bound to the column wins)", "a column <N>_out bound both to bidirectional N and to a signal named N_out of another width"),
 "C07-b": ("branch-free mask i64::MAX >> (63 - bits) clears bit 63 for 64-bit signals", "a 64-bit (or virtual) signal and a negative program value"),
 "C08-a": ("ite evaluates all three arguments through a shared eval_args helper", "an unselected ite branch that fails (1/0, Z read) or draws random"),
 "C08-b": ("a run of prefix operators folded in source order (wrong nesting)", "two different adjacent unary operators (-~x, ~!x)"),
 "C09-a": ("unsupported-statement error skips to end of line with a loop that never stops at EOF", "program/init/memory/def/call on the last line without final newline"),
 "C09-b": ("parse appends a newline to the text; spans refer to the lengthened copy", "no final newline and an error reported at the cut-off point"),
 "C10-a": ("/ and % use plain operators after a divisor() helper", "exactly i64::MIN on the left and -1 on the right"),
 "C10-b": ("C column looked up by entry index instead of column index (signal_index counter removed)", "bits(n,..) with n != 1 before a C that sits under an output"),
 "C11-a": ("same mechanism as C10-b seen at binding: false accept and false reject", "bits(n,..) before C in the same row"),
 "C11-b": ("let in scope while its own right-hand side is parsed", "first, self-referential binding of a name that is not an output"),
 "C12-a": ("a run of blank lines skipped at once; EOF after it breaks out of a nested block", "text ends inside exactly one open block and ends with a blank or comment-only line"),
 "C12-b": ("bits width range-checked after the narrowing cast to u8", "width >= 256 with width % 256 <= 64 that fills the row exactly"),
 "C13-a": ("per-slot signal comparison skipped for outputs that are not header columns", "an output of the signal list that is not in the header + a same-length swap/substitution among such slots"),
 "C13-b": ("an empty answer accepted in place of the recorded layout", "driver returns [] for a later checked row after a non-empty first answer"),
 "C14-a": ("early return between the two swap_vars leaves variables visible to virtual signals", "an error row from virtual evaluation, continued iteration, a live variable named like an output used in a declare"),
 "C14-b": ("virtual signals evaluated at construction against the first response", "a first response with Z/X on an output a virtual signal reads"),
 "C15-a": ("let binds its name before its right-hand side is parsed (read not recorded)", "let Q = Q + 1 with Q an output: try_iter_static succeeds on a non-static test"),
 "C15-b": ("name lookup asks the driver outputs before the variable frames", "a variable sharing its name with an output + a real driver returning that signal"),
 "C16-a": ("attrib() matches any <string> child instead of the first one", "a pin or test labelled exactly like a looked-up key (Bits, InDefault, Testdata)"),
 "C16-b": ("text_pos_to_range slices at a byte offset computed from lines() (short by one per CRLF)", "malformed XML + CRLF line endings + non-ASCII text at the right alignment"),
 "C17-a": ("bits(k, expr) evaluates expr once per bit", "random inside bits(k,..) with k != 1"),
 "C17-b": ("0 & x and 0 * x skip the right operand", "random in the right operand with a left operand that is 0 at run time"),
 "C18-a": ("variable map left swapped out on an error path of extract_output_values", "a declared virtual signal failing for one answer, the caller carries on and inspects vars()"),
 "C18-b": ("a zero-trip loop leaks one scope frame (push moved before the bound check)", "a loop whose bound evaluates <= 0 nested inside another loop; vars() after the outer loop ends"),
 "C19-a": ("blank lines after a loop/while header swallowed without counting them", "a loop or while body that starts with a blank or comment-only line"),
 "C19-b": ("row fast path returns a clone of the previous row (with its line) when the evaluated entries are equal", "two consecutively yielded rows from different source lines with equal values"),
 "C20-a": ("bits width parsed with str::parse::<u8> (decimal only)", "a bits entry whose width literal is written in hex, binary or octal"),
 "C20-b": ("a run of empty lines swallowed through next_if, bypassing the line counter", "two or more consecutive blank or comment-only lines above a row"),
}

res = {}
if os.path.exists('/verif/selftest/RESULTS.tsv'):
    for r in csv.DictReader(open('/verif/selftest/RESULTS.tsv'), delimiter='\t'):
        res.setdefault(r['mutant'], []).append({"check": r['check'], "exit": r['exit'], "violation_classes": [c for c in (r['classes'] or '').split(';') if c]})

for name, (what, needs) in sorted(T.items()):
    d = f'/verif/seeded/{name}'
    if not os.path.isdir(d):
        print('missing', d); continue
    confirm = open(f'{d}/confirm.log').read().strip().split('\n') if os.path.exists(f'{d}/confirm.log') else []
    meta = {
        "property": name.split('-')[0],
        "name": name,
        "origin": "fresh sub-agent given only the property text and a scratch worktree of /repo",
        "change": what,
        "needs_in_order_to_manifest": needs,
        "confirmed_in_scratch_worktree": confirm,
        "checks_run_against_it": res.get(name, []),
        "detected": any(x['exit'] == '1' and x['check'] == name.split('-')[0] for x in res.get(name, [])),
    }
    json.dump(meta, open(f'{d}/meta.json', 'w'), indent=1)
print('meta.json written for', len(T))
