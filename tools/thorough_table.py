#!/usr/bin/env python3
"""usage: tools/thorough_table.py <log of a thorough pass> <label>
Rewrites section 11.6 of DESIGN.md from the summary lines of a thorough pass and copies the log to
selftest/thorough_pass.log."""
import re, sys, shutil
log, label = sys.argv[1], sys.argv[2]
older = sys.argv[3] if len(sys.argv) > 3 else None
rows = {}
caps = []
old_rows = {}
if older:
    for l in open(older):
        m = re.match(r'(C\d\d) thorough: evaluations=(\d+) nontrivial=(\d+) states=(\d+) transitions=(\d+) outcomes=\d+ out_of_scope=\d+ wall=([\d.]+)s exhaustive=(\w+)', l)
        if m:
            old_rows[m.group(1)] = m.groups()[1:]
for l in open(log):
    m = re.match(r'(C\d\d) thorough: evaluations=(\d+) nontrivial=(\d+) states=(\d+) transitions=(\d+) outcomes=\d+ out_of_scope=\d+ wall=([\d.]+)s exhaustive=(\w+)', l)
    if m:
        rows[m.group(1)] = m.groups()[1:]
    if l.startswith('CAP') or 'VIOLATION' in l or 'MACHINERY' in l:
        caps.append(l.strip()[:200])
fmt = lambda n: f"{int(n):,}".replace(',', ' ')
out = [f"### 11.6 Thorough tier: the last full pass ({label}; `selftest/thorough_pass.log`)", "",
       "| id | cases evaluated | distinct non-trivial | states | transitions | wall (s) | exhaustive within bounds |",
       "|----|-----------------|----------------------|--------|-------------|----------|--------------------------|"]
for k in sorted(rows):
    e, n, s, t, w, x = rows[k]
    out.append(f"| {k} | {fmt(e)} | {fmt(n)} | {s if s != '0' else '–'} | {t if t != '0' else '–'} | {float(w):.0f} | {x} |")
out.append("")
missing = [f"C{i:02d}" for i in range(1, 21) if f"C{i:02d}" not in rows]
taken = [k for k in missing if k in old_rows]
if taken:
    out.insert(2, "Rows marked * are from the pass before (harness of the round-9 state, commit 0637848): the last pass was stopped before it reached them.")
    out.insert(3, "")
    for k in taken:
        e, n, s_, t, w, x = old_rows[k]
        out.insert(len(out) - 1, f"| {k}* | {fmt(e)} | {fmt(n)} | {s_ if s_ != '0' else '–'} | {t if t != '0' else '–'} | {float(w):.0f} | {x} |")
    missing = [k for k in missing if k not in old_rows]
if missing:
    out.append(f"Not finished when the log was taken: {', '.join(missing)} (their thorough tiers differ from the pass before only in parts that are the same in the quick tier).")
    out.append("")
if caps:
    out.append("Caps, violations and machinery messages of the pass:")
    out.extend(f"- `{c}`" for c in caps)
else:
    out.append("No thorough run of the pass reported a violation, a cap or a machinery failure.")
out.append("")
out.append("History: in the pass of the round-7 harness C12 stopped at its 20-minute wall cap inside the deepest token-tree walk without saying so (the classic capped run called exhaustive); since then a walk cut by its deadline records the cap (`caps_hit`, `exhaustive: false`) and the two token-tree checks have a 40-minute cap in the thorough tier.")
out.append("")
p = '/verif/DESIGN.md'
s = open(p).read()
i = s.index('### 11.6 Thorough tier')
s = s[:i] + "\n".join(out)
open(p, 'w').write(s)
shutil.copy(log, '/verif/selftest/thorough_pass.log')
print(len(rows), 'rows; missing', missing)
