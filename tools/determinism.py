#!/usr/bin/env python3
"""Runs every quick check twice (VERIF_SEED 1 and 2) into scratch output roots and requires
identical coverage counts (DESIGN section 4 (iii)). C17's seed-dependent extra seeds change
which seeds are run, not how many. Writes selftest/DETERMINISM.md."""
import json, subprocess, os, sys, shutil
ids = [f"C{i:02d}" for i in range(1, 21)]
if len(sys.argv) > 1: ids = sys.argv[1:]
rows = []
bad = 0
for i in ids:
    cov = []
    for seed in (1, 2):
        root = f"/tmp/dtr-det-{seed}"
        shutil.rmtree(root, ignore_errors=True)
        env = dict(os.environ, VERIF_SEED=str(seed), VERIF_OUT_ROOT=root)
        r = subprocess.run(["/verif/check", i, "quick"], env=env, capture_output=True, text=True)
        e = json.load(open(f"{root}/evidence/{i}.json"))
        c = e["coverage"]
        cov.append((r.returncode, c.get("evaluations"), c.get("distinct_nontrivial"), c.get("states"), c.get("transitions"), c.get("steps_compared"), json.dumps(c.get("witness_classes"), sort_keys=True), c.get("distinct_observed_outcomes")))
        shutil.rmtree(root, ignore_errors=True)
    same = cov[0] == cov[1]
    bad += (not same)
    rows.append((i, same, cov[0][:6], cov[1][:6]))
    print(i, "identical" if same else f"DIFFERENT {cov[0][:6]} vs {cov[1][:6]}", flush=True)
with open("/verif/selftest/DETERMINISM.md", "w") as f:
    f.write("# Two runs of every quick check (VERIF_SEED=1 and 2): exit code, evaluations, distinct_nontrivial, states, transitions, steps, witness counts, distinct outcomes\n\n")
    for i, same, a, b in rows:
        f.write(f"- {i}: {'identical' if same else 'DIFFERENT'} {a}{'' if same else ' vs ' + str(b)}\n")
sys.exit(1 if bad else 0)
