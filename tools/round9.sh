#!/bin/sh
# usage: tools/round9.sh <Cxx> [<Cxx>...]   confirm patch1/patch2 of /tmp/w9/<Cxx>/mutant as <Cxx>-t / <Cxx>-u, then run the property's quick check against each
for id in "$@"; do
  for k in 1 2; do
    l=t; [ $k = 2 ] && l=u
    echo "#### $id-$l"
    WT=/tmp/w9 /verif/tools/confirm_mutant.sh $id patch$k.diff demo$k.rs $id-$l 2>&1 | tail -4
    if [ -f /verif/seeded/$id-$l/patch.diff ]; then
      cp /tmp/w9/$id/mutant/NOTES.md /verif/seeded/$id-$l/NOTES.md 2>/dev/null
      /verif/tools/try_isolated.sh /verif/seeded/$id-$l/patch.diff quick $id 2>&1 | tail -6
    fi
  done
done
