#!/usr/bin/env python3
"""Regenerates the generated tables of DESIGN.md section 11 (between the markers
<!-- BEGIN GENERATED --> and <!-- END GENERATED -->) from evidence/, seeded/*/meta.json and
selftest/*.tsv."""
import json, glob, os, csv, re

out = []
out.append("### 11.3 Measured coverage of the quick tier (from the committed evidence files)\n")
out.append("| id | engine | cases evaluated | distinct non-trivial | states | transitions | wall (s) | exhaustive within bounds |")
out.append("|----|--------|-----------------|----------------------|--------|-------------|----------|--------------------------|")
man = {c['property_id']: c for c in json.load(open('/verif/MANIFEST.json'))['checks']}
for f in sorted(glob.glob('/verif/evidence/C*.json')):
    e = json.load(open(f)); c = e['coverage']
    out.append(f"| {e['property_id']} | {man[e['property_id']]['engine']} | {c.get('evaluations',0):,} | {c.get('distinct_nontrivial',0):,} | {c.get('states','–') if c.get('states') else '–'} | {c.get('transitions','–') if c.get('transitions') else '–'} | {e['wall_s']:.1f} | {c.get('exhaustive')} ({e['tier']}) |".replace(',', ' '))
out.append("")

out.append("### 11.4 Detection results\n")
out.append("**Regressions of the repaired defects** (each `fix:` commit reverted in a scratch copy; quick tier of the property concerned):\n")
out.append("| defect | commit reverted | check | result |")
out.append("|--------|-----------------|-------|--------|")
if os.path.exists('/verif/selftest/REGRESSIONS.tsv'):
    for r in csv.DictReader(open('/verif/selftest/REGRESSIONS.tsv'), delimiter='\t'):
        out.append(f"| {r['defect']} | {r['commit']} | {r['check']} | {'detected: ' + r['classes'].rstrip(';') if r['exit']=='1' else 'exit ' + r['exit']} |")
out.append("")
out.append("**Seeded changes from independent sub-agents** (each given only the property text and a scratch worktree - from the tenth round on also the list of the changes proposed before for that property, with the request not to repeat them; every one compiles, passes the 130 pinned tests and comes with a demonstration that fails with it and passes without it — re-confirmed by `tools/confirm_mutant.sh`, see `seeded/<name>/confirm.log`; results of `selftest/run_seeded.sh`, quick tier):\n")
out.append("| change | what it is | needs | detected by its property's check (violation classes) |")
out.append("|--------|------------|-------|------------------------------------------------------|")
for f in sorted(glob.glob('/verif/seeded/*/meta.json')):
    m = json.load(open(f))
    own = [x for x in m.get('checks_run_against_it', []) if x['check'] == m['property']]
    if own and own[0]['exit'] == '1':
        det = 'yes: ' + '; '.join(own[0]['violation_classes'])[:140]
    elif own:
        others = [x for x in m.get('checks_run_against_it', []) if x['check'] != m['property'] and x['exit'] == '1']
        if others:
            det = f"by {others[0]['check']} (the property it really breaks): " + '; '.join(others[0]['violation_classes'])[:110]
        else:
            det = f"NO (exit {own[0]['exit']})"
    else:
        det = 'not re-run in the last self-test (detected when it was processed, section 11.5)'
    note = m.get('detection_note', '')
    out.append(f"| {m['name']} | {m['change']} | {m['needs_in_order_to_manifest']} | {det}{(' — ' + note) if note else ''} |")
out.append("")
if os.path.exists('/verif/selftest/OWN.tsv'):
    out.append("**Own changes** (written to exercise parts no sub-agent change reached; `selftest/own/`):\n")
    out.append("| change | check | result |")
    out.append("|--------|-------|--------|")
    for r in csv.DictReader(open('/verif/selftest/OWN.tsv'), delimiter='\t'):
        out.append(f"| {r['mutant']} | {r['check']} | {'detected: ' + r['classes'].rstrip(';') if r['exit']=='1' else 'exit ' + r['exit']} |")
    out.append("")

p = '/verif/DESIGN.md'
s = open(p).read()
block = "<!-- BEGIN GENERATED -->\n" + "\n".join(out) + "\n<!-- END GENERATED -->"
if '<!-- BEGIN GENERATED -->' in s:
    s = re.sub(r'<!-- BEGIN GENERATED -->.*<!-- END GENERATED -->', lambda m: block, s, flags=re.S)
else:
    s = s.rstrip('\n') + "\n\n" + block + "\n"
open(p, 'w').write(s)
print("tables regenerated")
