#!/bin/sh
# usage: tools/round13.sh <Cxx> [<Cxx>...]   confirm patch1/patch2 of /tmp/w13/<Cxx>/mutant as <Cxx>-t / <Cxx>-u, then run the property's quick check against each
for id in "$@"; do
  for k in 1 2; do
    l=A; [ $k = 2 ] && l=B
    echo "#### $id-$l"
    WT=/tmp/w13 /verif/tools/confirm_mutant.sh $id patch$k.diff demo$k.rs $id-$l 2>&1 | tail -4
    if [ -f /verif/seeded/$id-$l/patch.diff ]; then
      cp /tmp/w13/$id/mutant/NOTES.md /verif/seeded/$id-$l/NOTES.md 2>/dev/null
      VERIF_QUICK_WALL=600 /verif/tools/try_isolated.sh /verif/seeded/$id-$l/patch.diff quick $id 2>&1 | grep -E "^== |class:|MACHINERY|does not" | head -5
    fi
  done
done
