#!/bin/sh
# usage: tools/try_mutant.sh <patch.diff> <tier> <id> [<id>...]
# Applies a patch to /repo, runs the given checks, reverts the patch. Prints exit codes.
patch="$1"; tier="$2"; shift 2
cd /repo || exit 2
if ! git diff --quiet; then echo "/repo is dirty, refusing"; exit 2; fi
git apply "$patch" || { echo "patch does not apply"; exit 2; }
for id in "$@"; do
  out=$(cd /verif && ./check "$id" "$tier" 2>&1); code=$?
  echo "== $id $tier exit=$code"
  echo "$out" | grep -E "VIOLATION|class:|MACHINERY|KNOWN-FINDING|^C[0-9]+ " | head -12
done
git -C /repo checkout -- . 
git -C /repo status --short | grep -v '^??' 
