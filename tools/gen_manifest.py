#!/usr/bin/env python3
"""Regenerates /verif/MANIFEST.json from the table below. Run after adding a check."""
import json, subprocess

HOOKS_COMMIT = "4564ba4"

E1 = "stateright 0.31 explicit-state BFS over the real DataRowIterator + scripted driver, lock-step reference interpreter"
E2 = "own bounded-exhaustive enumerator (mixed-radix / unranked index spaces split over all cores) running the real public API against the reference model"

# id -> (engine, technique, level text, level_note, design_ref)
CHECKS = {
    "C01": ("E2", "bounded-exhaustive enumeration of all programs up to K statements (small-scope model checking) against a reference interpreter",
            "Every program with up to K statement nodes (nesting <= 3) over a scoping-revealing alphabet, under every device answer history in {0,1,2}^4 where bounds are read from the device and three signal lists, is run through the real parser/binder/iterator and compared row by row with a reference interpreter. Exhaustive within those bounds; nothing is sampled.",
            "Trusts the reference interpreter (harness/src/refsem.rs) and the small-scope hypothesis; programs whose reference run exceeds 40 rows / 600 steps are out of scope.", "6/C01"),
    "C18": ("E2", "bounded-exhaustive enumeration of all programs up to K statements; vars() compared with the reference environment after every row",
            "Same program space as C01 (plus X and C rows); after every yielded row vars() must equal the reference interpreter's flattened frame stack at the moment the row was evaluated.",
            "Trusts the reference interpreter; values after an error item or the end are not specified and only required not to panic.", "6/C18"),
}

NOT_YET = "check under construction (not yet registered); see DESIGN.md section 6"

def main():
    checks = []
    for pid, (engine, technique, text, note, ref) in sorted(CHECKS.items()):
        checks.append({
            "property_id": pid,
            "quick_cmd": f"./check {pid} quick",
            "thorough_cmd": f"./check {pid} thorough",
            "evidence_file": f"/verif/evidence/{pid}.json",
            "replay_cmd_template": "./check replay {path}",
            "engine": engine,
            "level_claimed": {"category": "model_checking", "text": text, "design_ref": f"DESIGN.md section {ref}"},
            "level_note": note,
            "technique": technique,
        })
    na = [{"property_id": f"C{i:02d}", "reason": NOT_YET} for i in range(1, 21) if f"C{i:02d}" not in CHECKS]
    m = {
        "version": 1,
        "setup_cmd": "./check build",
        "hooks": {
            "guard": "verif-hooks",
            "enable": "cargo feature verif-hooks of digital_test_runner, enabled by the harness' path dependency on /repo (harness/Cargo.toml)",
            "baseline_off_cmd": "cd /repo && cargo test --workspace --no-fail-fast --offline",
            "source_commits": [HOOKS_COMMIT],
            "add_only": True,
        },
        "engines": [
            {"name": "E1", "path": "harness/src/e1.rs", "serves_properties": [p for p, c in CHECKS.items() if c[0] == "E1"], "kind_free_text": E1},
            {"name": "E2", "path": "harness/src/engine.rs", "serves_properties": [p for p, c in CHECKS.items() if c[0] == "E2"], "kind_free_text": E2},
        ],
        "checks": checks,
        "not_applicable": na,
        "notes": "All checks are bounded-exhaustive explorations of the real code (model checking family); see DESIGN.md. Exit codes: 0 held, 1 VIOLATION, 2 machinery failure.",
    }
    json.dump(m, open("/verif/MANIFEST.json", "w"), indent=1)
    print(f"{len(checks)} checks registered, {len(na)} not yet")

main()
