#!/usr/bin/env python3
"""Regenerates /verif/MANIFEST.json from the table below. Run after adding a check."""
import json, subprocess

HOOKS_COMMITS = ["4564ba4", "93a2b40", "7023b59", "76dec84"]

E1 = "stateright 0.31 explicit-state BFS over the real DataRowIterator + scripted driver, lock-step reference interpreter"
E2 = "own bounded-exhaustive enumerator (mixed-radix / unranked index spaces split over all cores) running the real public API against the reference model"

# id -> (engine, technique, level text, level_note, design_ref)
CHECKS = {
    "C01": ("E2", "bounded-exhaustive enumeration of all programs up to K statements (small-scope model checking) against a reference interpreter",
            "Every program with up to K statement nodes (nesting <= 3) over a scoping-revealing alphabet, under every device answer history in {0,1,2}^4 where bounds are read from the device and three signal lists, is run through the real parser/binder/iterator and compared row by row with a reference interpreter. Exhaustive within those bounds; nothing is sampled.",
            "Trusts the reference interpreter (harness/src/refsem.rs) and the small-scope hypothesis; programs whose reference run exceeds 40 rows / 600 steps are out of scope.", "6/C01"),
    "C02": ("E1", "explicit-state model checking (stateright BFS) of the iterator/driver protocol: call log vs yielded items after every transition",
            "All sequences of up to 4 (thorough 5) row statements from an 11-row menu (plain, C, X, Z, failing expression, repeat) at loop depth 0/1, and all feedback programs of the C04 alphabet under every answer history, for drivers that do and do not override write_input. After every next() the driver's own call log must account for exactly: the constructor call with all defaults, one call per yielded row carrying the row's inputs verbatim (flags included), output-reading iff the row has outputs, none for expression-error items, none after the end (also on repeated calls); which rows are checked is the reference expansion's. Also with one injected driver fault at any call after which the caller carries on, and for configurations with a bidirectional signal (used as input and expected, only through its _out column, not mentioned).",
            "The oracle uses only the subject's items and the driver's log; the reference interpreter only predicts which kind of call comes next so that the script can be built.", "6/C02"),
    "C03": ("E1", "explicit-state model checking (stateright BFS) over signal-list orders x fixed output layouts x per-call answers; oracle = the driver's own record + X/Z truth table",
            "6 signal-list orders x all 16 layouts (every ordered subset of three output-capable signals incl. a 64-bit one and a bidirectional one) x per-call answers from {0,5,15,-1,MAX,MIN,Z,X} per supplied signal (layered graph: every pair of consecutive answers is a transition). Every checked row must report for each signal exactly what the driver returned for it in that call (X if unsupplied), in signal-list order, and check()/is_checked()/failing_outputs() must follow the X/Z rules for expected values cycling through X, Z, 0, 5, -1, MAX (entry check(), OutputValue::check and ExpectedValue::check alike). Further families: variables named like outputs, a bidirectional D next to an output named D_out, a declared signal that fails for some answers with the caller carrying on.",
            "Quick tier uses {0,-1,Z,X} for three-signal layouts; thorough the full menu.", "6/C03"),
    "C04": ("E1", "explicit-state model checking (stateright BFS) of feedback programs under every history of device answers, lock-step with the reference interpreter, states de-duplicated on (real iterator key, reference continuation)",
            "Every program up to 3 (thorough 4) statements over the feedback alphabet (reads in rows, let, loop and repeat bounds, while conditions, clocked rows, a variable shadowing the signal, a self-referential let) that binds, x 2 signal lists x 2 driver variants x 3 layouts (full, omitting each read output), with every output-reading call answering Q in {0,1,2,Z,X} x DONE in {0,1}. Each item must equal the reference interpreter fed the same answers: values come from the latest output-reading call, mid-clock answers are never read, variables shadow signals (also after an error item when the caller carries on), Z/X reads are error items, a missing read output fails construction after exactly one call.",
            "De-duplication soundness: DESIGN 5.1; thorough re-explores a slice without merging. Mismatches on device-read loop bounds are attributed to C01 when the literal program fails equally.", "6/C04"),
    "C10": ("E2", "bounded-exhaustive enumeration of a targeted hostile space (dangerous expression x position x boundary operands x widths x driver behaviours) and re-used program corpora under a never-panics / error-item-where-predicted oracle",
            "One dangerous expression (all of / % + - * << >> unary- over 19^2 boundary operand pairs read from the device or as literals; random with bounds -1..3; signExt; variables assigned only in unexecuted while bodies; counters pushed to MAX; bits(0), bits(64)) in each of 8 expression positions for signal widths 1, 2, 63, 64 on input, output and bidirectional signals; drivers returning Z/X, omitting a read output, failing at each call index; the whole C01/C18 program space up to 3 statements under 7 hostile constant answers; every (program, signal list) pair of the C11 menu that with_signals accepts. No panic from construction, next(), vars() or static iteration; division by zero, unassigned variable, empty random range, unimplemented function and Z/X reads are error items exactly where the reference predicts (every binary operator is strict in both operands); everything else yields rows.",
            "Item kinds only (values are C08's); each run observed for 8 next() calls.", "6/C10"),
    "C13": ("E1", "explicit-state model checking (stateright BFS) with fault/deviation injection at every call index (up to 3-4 deviations per history in the quick tier, 4-6 in the thorough tier), caller carries on after each error",
            "18 curated programs (flat, clock rows, X+C, loop, device reads, virtual signal, bidirectional, no output in the header, permuted lists) x every first layout (each subset of the outputs, and reversed) x 2 driver variants; at every call the driver may fail (constructor, output-reading, write-only) or depart from its first layout in every listed way (drop each entry, empty answer, append foreign/copy/unsupplied, duplicate over either neighbour, swap, substitute at every position). The very error value must come back from try_iter or as the item of exactly that row; all items before equal the fault-free reference run; a deviating answer at a checked row yields an error item; every returned row anywhere attributes to each signal only a value the driver reported for that signal in that call.",
            "One deviation per history is complete for callers that stop at the first error; the exploration also carries on to check later rows.", "6/C13"),
    "C14": ("E1", "explicit-state model checking (stateright BFS) of programs with declarations under every per-call answer pair, lock-step with the reference interpreter",
            "Every declaration set (V in {none, Q+1, Q*2+R, 7, (Q<<60)} x W in {none, !R, Q=R}) x 5 placements x 5 shadowing variants x 4 headers that bind, x 2 driver variants, every output-reading call answering (Q,R) in {0,1,2,Z,X}^2, caller carrying on after error items. In every checked row each declaration appears after the real outputs as a 64-bit entry whose value is the expression over this call's answer with variables invisible and whose expected value is its column's entry or X; a Z/X operand makes exactly that next() an error item (never at construction, never a panic).",
            "Virtual entries are matched by name (their mutual order is C15's).", "6/C14"),
    "C15": ("E1", "exhaustive enumeration of hash-map drain orders through the H3 seam; explicit-state model checking (stateright BFS) of interleaved iterators; bounded-exhaustive static-vs-dynamic comparison",
            "(1) All k! x k! x k! drain orders of the parser's three HashMaps for programs with up to three C columns, read outputs and declarations: parsed tests, bound tests, signal order, row streams and binding errors must equal the identity order. (2) All interleavings of 3 iterators over one test (one restart each) for 12 programs with live internal state: item p and vars() of iterator j equal the solo run. (3) Every program up to 3 (thorough 4) statements of the C01/C18 alphabet: try_iter_static succeeds iff the reference's static read set is empty, and its rows (inputs, expected, line) equal 12 dynamic runs (4 answer values x 3 layouts); (3b) programs that fail at run time: static and dynamic item sequences stay equal when the caller carries on after error items; (1b) every order of the .dig loader's set of bidirectional names gives the same file.",
            "H3 replaces the real RandomState order (evidence records that the raw order varies); random draws are outside the property (seed pinned).", "6/C15"),
    "C05": ("E2", "bounded-exhaustive enumeration of all row shapes (per-column entry menus incl. X, C, Z, expressions, bits) x program forms x configurations against a reference expansion",
            "Every row shape over the per-column menus, at loop depth 0/1/2 and as a repeat row, for several header/signal-list configurations (permuted header, omitted input, bidirectional split, two clocks), compared with the reference expansion: number, order and values of the executed rows, checked/unchecked kind, expected values, line, and the call kinds a write_input-overriding driver sees.",
            "Trusts refsem.rs::do_row; loop bounds are >= 1 here.", "6/C05"),
    "C06": ("E2", "bounded-exhaustive enumeration of all signal lists x all headers (ordered selections) against a reference binder; changed-rule checked against the driver's own log, also after an injected driver fault",
            "Every ordered selection of up to 4 (thorough 5) signals from a 9-signal menu (inputs, outputs, bidirectional, names in prefix and _out relation, several widths) x every ordered selection of up to 4 valid header columns; a nine-row program whose consecutive rows differ in one column / one bit / everywhere; compared with the reference binder, and the one-directional changed rule is checked against what the driver was actually handed, including when the caller carries on after a driver fault; every other signal list comes with a declared virtual signal, with and without a header column.",
            "Trusts refsem.rs::bind; lists with duplicate names are C11's.", "6/C06"),
    "C07": ("E2", "exhaustive sweep of all widths 1..=64 x boundary value set x value paths against v mod 2^bits",
            "All 64 widths x ~260 boundary values (every single-bit value, all-ones, negated, MIN/MAX, alternating) on the input path, expected path, a bidirectional signal, a virtual signal and on columns bound to two signals of different widths; values reach the program as hex literals and read back from a 64-bit device output. A mask-shaped reduction is pinned exactly by the single-bit values.",
            "Only boundary values of the 2^64 domain are enumerated (DESIGN section 10).", "6/C07"),
    "C08": ("E2", "bounded-exhaustive enumeration of all operator chains/trees up to 3 binary operators (+ unary prefixes) x valuations and of the operator table over boundary operands, against a reference evaluator",
            "All 16^3 operator triples as flat chains (with every one of 9 unary prefixes on every operand position), all 5 tree shapes printed with minimal and full parentheses, under 12 valuations; all 16 binary and 3 unary operators over 19^2 boundary operand pairs read from the device; ite laziness incl. the draw log; all literal radix forms. Results are observed un-truncated in a 64-bit virtual column and a 64-bit output column.",
            "Trusts refsem.rs::binop/unop/climb; valuations are a fixed boundary set (DESIGN section 10).", "6/C08"),
    "C09": ("E2", "exhaustive depth-first walk of the prefix tree of token strings (pruned soundly through the token-meter hook) plus all character strings up to a length; totality and renderable error locations checked on every text",
            "Every token string up to the depth bound over a 37-token alphabet (one or two tokens per lexical/grammatical class, plus the other reserved words at shallow depth), below the empty body and 15 block/statement-opening seed prefixes, for three headers; every string up to length 6 (thorough 7) over 16 characters incl. multi-byte ones as whole text and as body. from_str must return; every error location must lie inside the text on character boundaries; the diagnostic must render.",
            "Pruning argument: DESIGN section 5.2 (the parse result is a function of the tokens pulled; a subtree is skipped only when the end-of-input token was not pulled). Native stack exhaustion is outside the property.", "6/C09"),
    "C11": ("E2", "bounded-exhaustive enumeration of all signal lists (sequences with repetition) x all headers x a program menu against an independent well-formedness judgement (iff); every accepted case iterated",
            "Every sequence of up to 3 (thorough 4) signals from a 10-signal menu (same names in different directions, a real A_out, names of virtual signals) x every ordered selection of up to 3 of 7 header columns x ~100 programs (C in every column incl. after bits and in dead code, reads in every expression position relative to the scope of lets and counters, declarations). with_signals must succeed exactly when the four clauses hold, never panic, and every accepted test must iterate to the end without an error item.",
            "Trusts refsem::bind_judgement with the static scoping rule; programs cannot fail at run time for reasons other than binding.", "6/C11"),
    "C12": ("E2", "same exhaustive token-tree walk and character strings as C09 plus every single edit of every valid program up to 3 statements, against an independent reference grammar (one direction: reference rejects => subject rejects)",
            "For every enumerated text that the independent recogniser (own lexer + recursive descent, refgrammar.rs) rejects, from_str must return Err: unterminated/wrongly terminated blocks, end at top level, wrong row length, missing ; ) , unknown function, wrong arity, literal too large, bits width above 64 (incl. values aliasing small ones after a narrowing cast), duplicate header/declare names, header without line break; edits are token deletion/duplication/confusion-class replacement, line deletion/duplication, truncation at every byte, each ended in five ways.",
            "Trusts refgrammar.rs as the definition of malformed; texts the reference accepts but the subject rejects are counted, not failed (none on the current tree).", "6/C12"),
    "C19": ("E2", "bounded-exhaustive enumeration of programs x all layouts with at most 2 deviations; the generator records the line of each row",
            "Every program up to 3 (thorough 4) statements that yields a row x every layout with <= 2 deviations (blank / whitespace-only / comment lines anywhere incl. directly after loop and while headers, blank lines before the header, CRLF on one line or all, trailing comment, missing final newline). line of every yielded row (every X/C expansion, every iteration) through the dynamic API, the static API and a generated .dig document must equal the line the generator put the row on, also for multi-byte signal names and when another iterator over another test is advanced between all next() calls.",
            "The generating printer is the oracle; only the line field is compared.", "6/C19"),
    "C20": ("E2", "bounded-exhaustive metamorphic exploration: every program x every layout-only rewriting with at most 2 deviations compared with the canonical layout (no reference semantics)",
            "Every program up to 2 (thorough 3) statements over a token-boundary alphabet (literals in all radixes incl. as bits width and loop bound, multi-character operators, identifiers that start like keywords) and two malformed variants of each x every set of <= 2 deviations: blank space (spaces, tab, CR, form feed) in or removed from each gap, indentation, trailing space, appended comments, inserted blank/comment lines, CRLF, final newline, every other radix spelling of each literal. Verdict, static rows, dynamic rows and the vectors handed to the driver must be equal; line shifts by the lines inserted above.",
            "Which token pairs may be written without a gap is decided by the reference lexer.", "6/C20"),
    "C16": ("E2", "bounded-exhaustive enumeration of circuit descriptions (pin sequences x test sequences) rendered as .dig XML against the generating description, plus every single corruption of base documents",
            "Every sequence of up to 3 (thorough 4) pins from a 14-pin menu (inputs with widths/defaults/high-Z, clock, outputs, duplicate and missing labels, non-numeric width, labels spelled like attribute keys, real <name>_out pins) x every sequence of up to 2 tests from a 15-test menu (duplicate, missing and empty labels, headers with _out columns of every kind, XML-special characters, CRLF, empty and unparsable sources). File::parse must return; a loadable document must yield exactly the described signals and the tests verbatim in order; load_test(i) must equal parse+bind; by-name selects the first match; out-of-range/unknown are errors. Every truncation, line deletion/duplication, tag rename, attribute emptying, bracket drop (and single-character deletion for small documents) of 7 base documents must not panic.",
            "Signal order is not specified by the property and is compared as a multiset; File::open is not explored.", "6/C16"),
    "C17": ("E2", "bounded-exhaustive enumeration of programs with random/resetRandom in every position x bounds x seeds; the hook's draw log is replayed through the reference interpreter",
            "Every program up to 3 (thorough 4) statements over an alphabet placing random() in row entries, bits, let, loop/repeat bounds, while conditions, declarations, ite branches and dead operands with resetRandom anywhere, for 7 bounds (2 .. 2^62 and a device-computed one) and 11 seeds. From the draw log: every draw in range; the reference interpreter fed the logged values reproduces every row and consumes the log exactly with equal bounds and reset positions (one draw per evaluation, none in unselected ite branches, behaviour equals the literal program); after every resetRandom the stream replays; same seed gives the same run; every draw of a run comes from one generator object.",
            "Observation through hooks H1/H2; bounds and seeds are boundary sets (DESIGN section 10).", "6/C17"),
    "C18": ("E2", "bounded-exhaustive enumeration of all programs up to K statements; vars() compared with the reference environment after every row",
            "Same program space as C01 (plus X and C rows); after every yielded row vars() must equal the reference interpreter's flattened frame stack at the moment the row was evaluated. An explicit-state part (stateright) covers callers that carry on after an error item (failing virtual signal, failing row entry) under every answer history.",
            "Trusts the reference interpreter; values after an error item or the end are not specified and only required not to panic.", "6/C18"),
}

# additions of the ninth and tenth rounds, appended to the level text
EXTRA = {
    "C01": " bits(k, e) for every k = 1..64 over k one-bit columns x 12 patterned values.",
    "C02": " Every curated program also with the defaults edited through the public signals field after loading (constructor call carries the edited defaults; whole run equals a test loaded with them), and through run_iter, the deprecated name of try_iter.",
    "C03": " OutputResultEntry / DataRow values built through their public fields: 8 widths x 3 signal kinds x 19 outputs x 19 expected values against the truth table (check, is_checked, value-level check, failing_outputs).",
    "C07": " Value alphabet: boundary values, runs of ones of every length at every position and their complements, fixed mixed constants (64 quick / 8192 thorough); headers of 65..130 columns; variables named like X and Z.",
    "C08": " Operator table also over a wide operand set (every power of two, predecessor, negation, mixed constants; each pair once); ite whose condition cannot be evaluated; names spelt like the built-in functions.",
    "C10": " T9: signal widths 0, 65, 100, 128, 2^20, usize::MAX.",
    "C12": " Sequences of 2..5 declarations with a duplicate anywhere; malformed texts also as the dataString of a rendered .dig document (File::parse + load_test).",
    "C13": " Every first layout twice: signals answering values of their own, and all answering the same value.",
    "C14": " A driver that also lists the declared signal itself in its answers (every position, every call / later calls / never) and declarations that merely rename an output under Z and X.",
    "C15": " try_iter over the public static_test::Driver + From<DataRow> for StaticDataRow equals try_iter_static.",
    "C16": " File::open (scratch file) and str::parse::<File>() compared with File::parse on every sixteenth generated document and every tenth corruption.",
    "C17": " One seed runs against a device that reports an output as X from the second call on; draws in the condition of an ite with equal branches.",
    "C19": " Comments containing a carriage return.",
    "C20": " Comments containing a carriage return; 70 000 lines inserted in front of a row.",
}

NOT_YET = "check under construction (not yet registered); see DESIGN.md section 6"

def main():
    checks = []
    for pid, (engine, technique, text, note, ref) in sorted(CHECKS.items()):
        checks.append({
            "property_id": pid,
            "quick_cmd": f"./check {pid} quick",
            "thorough_cmd": f"./check {pid} thorough",
            "evidence_file": f"/verif/evidence/{pid}.json",
            "replay_cmd_template": "./check replay {path}",
            "engine": engine,
            "level_claimed": {"category": "model_checking", "text": text + EXTRA.get(pid, ""), "design_ref": f"DESIGN.md section {ref}"},
            "level_note": note + " Beyond the space named above the check crosses small exhaustive spaces with the standing dimensions of DESIGN.md section 11.5 (histories of rows, callers that carry on after error items, coinciding names and values, one loaded test used twice, iterators advanced with nth, dropped mid-cycle or moved to another thread, drivers with io::Error, signal lists cloned from loaded tests) and holds a few cases far beyond the enumerated sizes; the evidence file lists every space with its size.",
            "technique": technique,
        })
    na = [{"property_id": f"C{i:02d}", "reason": NOT_YET} for i in range(1, 21) if f"C{i:02d}" not in CHECKS]
    m = {
        "version": 1,
        "setup_cmd": "./check build",
        "hooks": {
            "guard": "verif-hooks",
            "enable": "cargo feature verif-hooks of digital_test_runner, enabled by the harness' path dependency on /repo (harness/Cargo.toml)",
            "baseline_off_cmd": "cd /repo && cargo test --workspace --no-fail-fast --offline",
            "source_commits": HOOKS_COMMITS,
            "add_only": True,
        },
        "engines": [
            {"name": "E1", "path": "harness/src/e1.rs", "serves_properties": [p for p, c in CHECKS.items() if c[0] == "E1"], "kind_free_text": E1},
            {"name": "E2", "path": "harness/src/engine.rs", "serves_properties": [p for p, c in CHECKS.items() if c[0] == "E2"], "kind_free_text": E2},
        ],
        "checks": checks,
        "not_applicable": na,
        "notes": "All checks are bounded-exhaustive explorations of the real code (model checking family); see DESIGN.md. Exit codes: 0 held, 1 VIOLATION, 2 machinery failure.",
    }
    json.dump(m, open("/verif/MANIFEST.json", "w"), indent=1)
    print(f"{len(checks)} checks registered, {len(na)} not yet")

main()
