#!/bin/sh
# Self-test: runs checks against each stored mutant in an isolated scratch copy (never /repo,
# never /verif/evidence). usage: selftest/run_seeded.sh [<dir-with-mutants> [<name-glob>]]
#   for each <m>/patch.diff: apply to a scratch worktree of /repo, build a scratch copy of the
#   harness against it, run the quick check of the property named by the directory (Cxx-*),
#   and of the extra ids listed in <m>/also.txt if present. Writes selftest/RESULTS.tsv.
set -u
SRC="${1:-/verif/seeded}"
GLOB="${2:-*}"
ST=/tmp/dtr-selftest-$$-${SHARD:-0}
rm -rf "$ST"; mkdir -p "$ST/out"
git -C /repo worktree prune
git -C /repo worktree add -q --detach "$ST/repo" HEAD || exit 2
cp -r /verif/harness "$ST/harness"
sed -i "s#path = \"/repo\"#path = \"$ST/repo\"#" "$ST/harness/Cargo.toml"
sed -i "s#target-dir = \"/verif/target\"#target-dir = \"$ST/target\"#" "$ST/harness/.cargo/config.toml"
export CARGO_NET_OFFLINE=true CARGO_TARGET_DIR="$ST/target" VERIF_OUT_ROOT="$ST/out"
OUT="${OUT:-/verif/selftest/RESULTS.tsv}"
printf 'mutant\tcheck\texit\tclasses\n' > "$OUT"
for m in "$SRC"/$GLOB/; do
  name=$(basename "$m"); id=${name%%-*}
  [ -f "$m/patch.diff" ] || continue
  git -C "$ST/repo" checkout -q -- . 
  if ! git -C "$ST/repo" apply "$m/patch.diff" 2>/dev/null && ! git -C "$ST/repo" apply -C1 "$m/patch.diff" 2>/dev/null; then printf '%s\t%s\tNA\tpatch does not apply to HEAD\n' "$name" "$id" >> "$OUT"; continue; fi
  if ! (cd "$ST/harness" && cargo build --release --offline >"$ST/build.log" 2>&1); then printf '%s\t%s\tNA\tdoes not build with hooks\n' "$name" "$id" >> "$OUT"; continue; fi
  ids="$id"; [ -f "$m/also.txt" ] && ids="$ids $(cat "$m/also.txt")"
  for c in $ids; do
    res=$("$ST/target/release/dtr-verif" "$c" quick 2>&1); code=$?
    classes=$(echo "$res" | grep '^  class:' | sed 's/^  class: //' | tr '\n' ';' | cut -c1-300)
    [ $code -eq 2 ] && classes="MACHINERY: $(echo "$res" | grep MACHINERY | head -1)"
    printf '%s\t%s\t%s\t%s\n' "$name" "$c" "$code" "$classes" >> "$OUT"
  done
done
git -C "$ST/repo" checkout -q -- .
git -C /repo worktree remove --force "$ST/repo"
rm -rf "$ST"
echo "self-test finished: $OUT"
