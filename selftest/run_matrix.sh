#!/bin/sh
# Cross matrix: every stored change against every check (quick tier), in an isolated scratch
# copy. usage: selftest/run_matrix.sh [<dir-with-mutants> [<name-glob>]]  -> selftest/MATRIX.tsv
set -u
SRC="${1:-/verif/seeded}"
GLOB="${2:-*}"
ST=/tmp/dtr-matrix-$$
rm -rf "$ST"; mkdir -p "$ST/out"
git -C /repo worktree prune
git -C /repo worktree add -q --detach "$ST/repo" HEAD || exit 2
cp -r /verif/harness "$ST/harness"
sed -i "s#path = \"/repo\"#path = \"$ST/repo\"#" "$ST/harness/Cargo.toml"
sed -i "s#target-dir = \"/verif/target\"#target-dir = \"$ST/target\"#" "$ST/harness/.cargo/config.toml"
export CARGO_NET_OFFLINE=true CARGO_TARGET_DIR="$ST/target" VERIF_OUT_ROOT="$ST/out"
OUT="${OUT:-/verif/selftest/MATRIX.tsv}"
printf 'mutant' > "$OUT"; for i in 01 02 03 04 05 06 07 08 09 10 11 12 13 14 15 16 17 18 19 20; do printf '\tC%s' $i >> "$OUT"; done; printf '\n' >> "$OUT"
for m in "$SRC"/$GLOB/; do
  name=$(basename "$m")
  [ -f "$m/patch.diff" ] || continue
  git -C "$ST/repo" checkout -q -- .
  git -C "$ST/repo" apply "$m/patch.diff" 2>/dev/null || { printf '%s\tpatch does not apply\n' "$name" >> "$OUT"; continue; }
  (cd "$ST/harness" && cargo build --release --offline >"$ST/build.log" 2>&1) || { printf '%s\tdoes not build\n' "$name" >> "$OUT"; continue; }
  printf '%s' "$name" >> "$OUT"
  for i in 01 02 03 04 05 06 07 08 09 10 11 12 13 14 15 16 17 18 19 20; do
    "$ST/target/release/dtr-verif" "C$i" quick >/dev/null 2>&1; printf '\t%s' $? >> "$OUT"
  done
  printf '\n' >> "$OUT"
done
git -C /repo worktree remove --force "$ST/repo"
rm -rf "$ST"
echo "matrix finished: $OUT"
